#!/bin/sh
# usage: check.sh <property-id> [quick|thorough]
# Verifies one property against /repo's current working tree (contracts in /repo/contracts_verif.go).
cd "$(dirname "$0")" || exit 2
if [ ! -x bin/flytvc ] || [ -n "$(find engine -name '*.go' -newer bin/flytvc 2>/dev/null | head -1)" ]; then
  ./setup.sh || { echo "setup failed" >&2; exit 2; }
fi
exec bin/flytvc check -property "$1" -tier "${2:-quick}" -repo "${FLYT_REPO:-/repo}"
