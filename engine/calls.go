package main

// Calls: contracts, monitors (on-call rules), inlining, abstract callbacks,
// builtins and library models.

import (
	"fmt"
	"go/constant"
	"go/types"
	"regexp"
	"sort"
	"strings"

	"golang.org/x/tools/go/ssa"
)

const maxInlineDepth = 5

// ---------------------------------------------------------------- ghost built-ins

func (vc *FuncVC) initBuiltinGhost(st *State) {
	c := st.fresh("cancelled", SBool)
	st.ghost["cancelled"] = V{c, SBool, nil}
	st.ghost["sawCancel"] = V{"false", SBool, nil}
	cb := st.fresh("callbacks", SInt)
	st.ghost["callbacks"] = V{cb, SInt, nil}
	now := st.fresh("now", SInt)
	st.ghost["now"] = V{now, SInt, nil}
	st.ghost["sections"] = V{"0", SInt, nil}
	st.ghost["spawned"] = V{"0", SInt, nil}
}

// userEffect: what any piece of user code may do (assumption A1/A3).
func (vc *FuncVC) userEffect(st *State) {
	c := st.fresh("cancelled", SBool)
	st.assume(implies(st.ghost["cancelled"].T, c))
	st.ghost["cancelled"] = V{c, SBool, nil}
	n := st.fresh("now", SInt)
	st.assume(app(">=", n, st.ghost["now"].T))
	st.ghost["now"] = V{n, SInt, nil}
	vc.havocUserHeap(st)
}

func (vc *FuncVC) havocUserHeap(st *State) {
	// contents of every map[string]any (SharedStore data) and the store's map field
	dn, dso, vn, vso := mapHeaps(vc.w, userMapType)
	st.heapHavoc(dn, dso)
	st.heapHavoc(vn, vso)
	st.heapHavoc("H_SharedStore_data", arraySort(SInt, SInt))
	// user code may re-wire flows through Connect: the transition tables of all flows
	for _, mt := range vc.eng.flowTableTypes() {
		fd, fdso, fv, fvso := mapHeaps(vc.w, mt)
		st.heapHavoc(fd, fdso)
		st.heapHavoc(fv, fvso)
	}
	// allocation only grows
	old := st.heapGet("alive", aliveSort)
	nw := st.heapHavoc("alive", aliveSort)
	st.assume(fmt.Sprintf("(forall ((r Int)) (! (=> (select %s r) (select %s r)) :pattern ((select %s r))))", old, nw, old))
}

func (vc *FuncVC) countCallback(st *State) {
	st.ghost["callbacks"] = V{app("+", st.ghost["callbacks"].T, "1"), SInt, nil}
}

// ---------------------------------------------------------------- rules

func (vc *FuncVC) findRule(mode string, target string, alt ...string) *CallRule {
	if vc.contract == nil {
		return nil
	}
	for _, r := range vc.contract.Rules {
		rk := r.Kind
		rmode := "call"
		if i := strings.Index(rk, ":"); i >= 0 {
			rmode, rk = rk[:i], rk[i+1:]
		}
		if rmode != mode {
			continue
		}
		cand := r.Target
		if rk != "static" {
			cand = rk + " " + r.Target
		}
		if cand == target {
			return r
		}
		for _, a := range alt {
			if cand == a {
				return r
			}
		}
	}
	return nil
}

// ruleRequires checks a monitor rule's guards in the state before the call.
func (vc *FuncVC) ruleRequires(st *State, r *CallRule, site string, args []any) {
	vars := vc.baseVars(st)
	for i, p := range r.Params {
		if p != "_" && i < len(args) {
			vars[p] = args[i]
		}
	}
	sc := vc.newScope(st, vars)
	for _, c := range r.Req {
		if !vc.inProp(c.Tags) {
			continue
		}
		g, _ := vc.safeBool(sc, c.E, site+"/requires")
		vc.addOblig(st, "rule-requires", fmt.Sprintf("call:%s/monitor#%d.%d", site, r.Ord, c.Ord), c.Tags, g)
	}
}

// ruleEffects updates the ghost state after the call returned.
func (vc *FuncVC) ruleEffects(st *State, r *CallRule, site string, args []any, results []any) {
	vars := vc.baseVars(st)
	for i, p := range r.Params {
		if p != "_" && i < len(args) {
			vars[p] = args[i]
		}
	}
	for i, p := range r.Results {
		if p != "_" && i < len(results) {
			vars[p] = results[i]
		}
	}
	sc := vc.newScope(st, vars)
	vc.safeExec(sc, r.Effects, site+"/effect")
	for _, c := range r.Assume {
		g, ok := vc.safeBool(sc, c.E, site+"/assume")
		if ok {
			st.assume(g)
			vc.trusted["contract assumption in "+vc.name+": "+c.Src] = true
		}
	}
}

// baseVars: the contract-local names of the function under verification.
func (vc *FuncVC) baseVars(st *State) map[string]any {
	vars := map[string]any{}
	for k, v := range vc.entryVars {
		vars[k] = v
	}
	return vars
}

// ---------------------------------------------------------------- call dispatch

func (vc *FuncVC) evalArgs(st *State, fr *Frame, cc *ssa.CallCommon) []any {
	var args []any
	for _, a := range cc.Args {
		args = append(args, vc.val(st, fr, a))
	}
	return args
}

func (vc *FuncVC) setResult(fr *Frame, instr ssa.Instruction, res []any) {
	v, ok := instr.(ssa.Value)
	if !ok {
		return
	}
	switch len(res) {
	case 0:
	case 1:
		fr.env[v] = res[0]
	default:
		fr.env[v] = Tuple(res)
	}
}

func (vc *FuncVC) doCall(st *State, fr *Frame, instr ssa.Instruction, cc *ssa.CallCommon, mode string) []*State {
	site := vc.siteName(fr.fn, instr, callTargetName(cc))
	// events inside inlined (uncontracted) helpers are events of the function under verification:
	// the monitor rules apply to them too; only the site name tells them apart
	if len(st.frames) > 1 {
		site += "@" + relName(fr.fn)
	}
	inTop := true
	if mode == "go" {
		return vc.doGo(st, fr, instr, cc, site)
	}
	if cc.IsInvoke() {
		recv := vc.valV(st, fr, cc.Value)
		args := append([]any{recv}, vc.evalArgs(st, fr, cc)...)
		res := vc.invokeMethod(st, fr, instr, cc, site, recv, args, inTop)
		vc.setResult(fr, instr, res)
		return nil
	}
	if b, ok := cc.Value.(*ssa.Builtin); ok {
		return vc.doBuiltin(st, fr, instr, cc, b, site)
	}
	callee := cc.StaticCallee()
	args := vc.evalArgs(st, fr, cc)
	var bindings []any
	if callee == nil {
		// dynamic call: known closure?
		fv := vc.val(st, fr, cc.Value)
		if c, ok := fv.(*Closure); ok {
			callee = c.Fn
			bindings = c.Bindings
		} else if v, ok := fv.(V); ok {
			if c, ok := st.closures[v.T]; ok {
				callee = c.Fn
				bindings = c.Bindings
			}
		}
		if callee == nil {
			fvv := vc.valV(st, fr, cc.Value)
			vc.nopanic(st, "nil-func-call", instr, not(eq(fvv.T, "0")))
			res := vc.unknownFuncCall(st, fr, instr, cc, site, append([]any{fvv}, args...), inTop)
			vc.setResult(fr, instr, res)
			return nil
		}
	} else if mc, ok := cc.Value.(*ssa.MakeClosure); ok {
		_ = mc
		if c, ok := vc.val(st, fr, cc.Value).(*Closure); ok {
			bindings = c.Bindings
		}
	}
	return vc.callFunction(st, fr, instr, callee, bindings, args, site, inTop)
}

// callFunction: a call whose target function is known.
func (vc *FuncVC) callFunction(st *State, fr *Frame, instr ssa.Instruction, callee *ssa.Function, bindings []any, args []any, site string, inTop bool) []*State {
	if callee.Pkg != nil && callee.Pkg.Pkg == vc.eng.pkg.Types {
		name := relName(callee)
		if ct := vc.eng.spec.Contracts[name]; ct != nil && !ct.Abstract {
			var r *CallRule
			if inTop {
				r = vc.findRule("call", name)
			}
			if r != nil {
				vc.ruleRequires(st, r, site, args)
			}
			res := vc.callContract(st, fr, instr, callee, ct, bindings, args, site)
			if r != nil {
				vc.ruleEffects(st, r, site, args, res)
			}
			vc.setResult(fr, instr, res)
			return nil
		}
		if callee.Blocks == nil {
			vc.unsupportedf("call to bodyless function %s", name)
			panic(abortPath{"nobody"})
		}
		if inTop {
			if r := vc.findRule("call", name); r != nil {
				// rule on an inlined callee: requires only (effects cannot see results)
				vc.ruleRequires(st, r, site, args)
			}
		}
		return vc.inline(st, fr, instr, callee, bindings, args)
	}
	// library
	res, ok := vc.libCall(st, fr, instr, callee, args, site)
	if !ok {
		res, ok = vc.valueOnlyExternal(st, callee)
	}
	if !ok {
		res, ok = vc.effectFreeExternal(st, callee)
	}
	if !ok {
		vc.unsupportedf("call to external function %s", callee.String())
		panic(abortPath{"extern"})
	}
	vc.setResult(fr, instr, res)
	return nil
}

func (vc *FuncVC) inline(st *State, fr *Frame, instr ssa.Instruction, callee *ssa.Function, bindings []any, args []any) []*State {
	if len(st.frames) > maxInlineDepth {
		vc.unsupportedf("inline depth exceeded at %s", callee.Name())
		panic(abortPath{"depth"})
	}
	for _, f := range st.frames {
		if f.fn == callee {
			vc.unsupportedf("recursive call of %s without a contract", callee.Name())
			panic(abortPath{"recursion"})
		}
	}
	nf := &Frame{fn: callee, env: map[ssa.Value]any{}, cuts: map[*ssa.BasicBlock]*loopCut{}}
	if v, ok := instr.(ssa.Value); ok {
		nf.retTo = v
	}
	if _, isDefer := instr.(*ssa.Defer); isDefer {
		nf.retTo = nil
		nf.isDefer = true
	}
	for i, p := range callee.Params {
		if i < len(args) {
			nf.env[p] = args[i]
		}
	}
	for i, fv := range callee.FreeVars {
		if i < len(bindings) {
			nf.env[fv] = bindings[i]
		}
	}
	nf.block = callee.Blocks[0]
	st.frames = append(st.frames, nf)
	st.event("inline %s", relName(callee))
	return nil
}

// ---------------------------------------------------------------- contract calls

func (vc *FuncVC) bindContractVars(ct *Contract, callee *ssa.Function, bindings []any, args []any) map[string]any {
	vars := map[string]any{}
	for i, p := range ct.Params {
		if i < len(args) && p != "_" {
			vars[p] = args[i]
		}
	}
	if callee != nil {
		names := vc.eng.freeVarNames(callee, ct, vc.w)
		for i := range callee.FreeVars {
			if i < len(bindings) {
				vars[names[i]] = bindings[i]
			}
		}
	}
	return vars
}

// escapeClosures: a closure handed to a callee may run concurrently from then on; whatever its contract lets it
// assign becomes volatile for the rest of this activation.
func (vc *FuncVC) escapeClosures(st *State, args []any) {
	for _, a := range args {
		c, ok := a.(*Closure)
		if !ok || c.Fn == nil {
			continue
		}
		ct := vc.eng.spec.Contracts[relName(c.Fn)]
		if ct == nil {
			continue
		}
		vars := vc.bindContractVars(ct, c.Fn, c.Bindings, nil)
		sc := vc.newScope(st, vars)
		for _, asg := range ct.Assigns {
			func() {
				defer func() {
					if r := recover(); r != nil {
						if _, is := r.(specError); !is {
							panic(r)
						}
					}
				}()
				switch x := asg.(type) {
				case EUnary:
					if x.Op == "*" {
						b := sc.eval(x.X)
						pt := b.GT.Underlying().(*types.Pointer)
						hn, _ := cellHeap(vc.w.sortOf(pt.Elem()))
						if st.volatile == nil {
							st.volatile = map[string]bool{}
						}
						st.volatile[hn+"|"+b.T] = true
					}
				case ECall:
					if x.Fn == "contents" && len(x.Args) == 1 {
						b := sc.eval(x.Args[0])
						if u, ok := b.GT.Underlying().(*types.Slice); ok {
							hn, _ := elemsHeap(vc.w.sortOf(u.Elem()))
							if st.volatile == nil {
								st.volatile = map[string]bool{}
							}
							st.volatile[hn+"|"+app("sarr", b.T)] = true
						}
					}
				}
			}()
		}
	}
}

func (vc *FuncVC) callContract(st *State, fr *Frame, instr ssa.Instruction, callee *ssa.Function, ct *Contract, bindings []any, args []any, site string) []any {
	vc.assumed[ct.Name] = true
	vc.escapeClosures(st, args)
	vars := vc.bindContractVars(ct, callee, bindings, args)
	sc := vc.newScope(st, vars)
	for _, c := range ct.Requires {
		if !vc.inProp(c.Tags) {
			continue
		}
		g, _ := vc.safeBool(sc, c.E, site+"/requires")
		vc.addOblig(st, "requires", fmt.Sprintf("call:%s/requires#%d", site, c.Ord), c.Tags, g)
	}
	// snapshot for old()
	heapBefore := map[string]string{}
	for k, v := range st.heap {
		heapBefore[k] = v
	}
	ghostBefore := map[string]V{}
	for k, v := range st.ghost {
		ghostBefore[k] = v
	}
	// frame
	vc.applyHavoc(st, sc, ct, site)
	// results
	var res []any
	sig := callee.Signature
	for i := 0; i < sig.Results().Len(); i++ {
		rt := sig.Results().At(i).Type()
		v := st.freshV("r_"+callee.Name(), rt)
		vc.assumeTypeWF(st, v, rt)
		res = append(res, v)
		if i < len(ct.Results) && ct.Results[i] != "_" {
			vars[ct.Results[i]] = v
		}
	}
	post := sc.withOld(heapBefore, ghostBefore)
	for _, c := range ct.Ensures {
		if !vc.inProp(c.Tags) {
			continue
		}
		if vc.mentionsLocalGhost(ct, c.E) {
			continue
		}
		g, ok := vc.safeBool(post, c.E, ct.Name+"/ensures")
		if ok {
			st.assume(g)
		}
	}
	if ct.Joins {
		// no task is running any more: the captured cells hold whatever the tasks wrote last, and stay quiescent
		var keys []string
		for k := range st.volatile {
			keys = append(keys, k)
		}
		sort.Strings(keys)
		for _, k := range keys {
			i := strings.Index(k, "|")
			hn, ref := k[:i], k[i+1:]
			hs := vc.heapSorts[hn]
			if hs == "" {
				continue
			}
			_, inner := splitArraySort(hs)
			cur := st.heapGet(hn, hs)
			st.heapSet(hn, hs, sto(cur, ref, st.fresh("joined", inner)))
		}
		st.volatile = nil
	}
	st.event("call %s", ct.Name)
	return res
}

// assumeTypeWF: facts that hold for every value of a Go type coming from outside.
func (vc *FuncVC) assumeTypeWF(st *State, v V, t types.Type) {
	if it, ok := t.Underlying().(*types.Interface); ok && it.NumMethods() > 0 {
		// a non-nil value of interface type I has a dynamic type that implements I
		if nt, named := t.(*types.Named); named && nt.Obj().Pkg() != nil && nt.Obj().Pkg() == vc.eng.pkg.Types {
			st.assume(implies(not(eq(v.T, "nilI")), app("implements", app("typ", v.T), vc.ifaceNameOf(t))))
		}
	}
	switch t.Underlying().(type) {
	case *types.Slice:
		st.assume(vc.sliceWF(v.T))
		st.assumeAlive2(app("sarr", v.T))
	case *types.Pointer, *types.Map, *types.Chan:
		st.assumeAlive(v.T)
	case *types.Signature:
		st.assumeAlive2(v.T)
	}
}

// mentionsLocalGhost: the clause talks about the callee's activation-local ghost state.
func (vc *FuncVC) mentionsLocalGhost(ct *Contract, e Expr) bool {
	local := map[string]bool{"sawCancel": true, "sections": true, "spawned": true}
	for _, g := range ct.Ghosts {
		local[g.Name] = true
	}
	found := false
	walkExpr(e, func(x Expr) {
		if id, ok := x.(EIdent); ok && local[id.Name] {
			found = true
		}
		if c, ok := x.(ECall); ok && (c.Fn == "alloc" || c.Fn == "made" || c.Fn == "visited") {
			found = true
		}
	})
	return found
}

func walkExpr(e Expr, f func(Expr)) {
	if e == nil {
		return
	}
	f(e)
	switch x := e.(type) {
	case EUnary:
		walkExpr(x.X, f)
	case EBinary:
		walkExpr(x.X, f)
		walkExpr(x.Y, f)
	case ECond:
		walkExpr(x.C, f)
		walkExpr(x.A, f)
		walkExpr(x.B, f)
	case ECall:
		for _, a := range x.Args {
			walkExpr(a, f)
		}
	case EIndex:
		walkExpr(x.X, f)
		walkExpr(x.I, f)
	case EField:
		walkExpr(x.X, f)
	case EAssert:
		walkExpr(x.X, f)
	case EQuant:
		walkExpr(x.Body, f)
	case ELit:
		for _, a := range x.Args {
			walkExpr(a, f)
		}
	case EAt:
		walkExpr(x.X, f)
	}
}

// applyHavoc applies the frame of a contract at a call site.
func (vc *FuncVC) applyHavoc(st *State, sc *Scope, ct *Contract, site string) {
	for _, h := range ct.Havoc {
		switch h {
		case "user":
			vc.userEffect(st)
			// an unknown number of callbacks
			k := st.fresh("cbs", SInt)
			st.assume(app(">=", k, "0"))
			st.ghost["callbacks"] = V{app("+", st.ghost["callbacks"].T, k), SInt, nil}
		case "alloc":
			old := st.heapGet("alive", aliveSort)
			nw := st.heapHavoc("alive", aliveSort)
			st.assume(fmt.Sprintf("(forall ((r Int)) (! (=> (select %s r) (select %s r)) :pattern ((select %s r))))", old, nw, old))
			// channels created by the callee: state of pre-existing channels is unchanged
			for _, k := range []string{"closed@chan", "chancap@chan"} {
				co := st.heapGet(k, arraySort(SInt, SInt))
				cn := st.heapHavoc(k, arraySort(SInt, SInt))
				st.assume(fmt.Sprintf("(forall ((r Int)) (! (=> (select %s r) (= (select %s r) (select %s r))) :pattern ((select %s r))))", old, cn, co, cn))
			}
		case "chans":
			st.heapHavoc("closed@chan", arraySort(SInt, SInt))
		case "time":
			n := st.fresh("now", SInt)
			st.assume(app(">=", n, st.ghost["now"].T))
			st.ghost["now"] = V{n, SInt, nil}
		default:
			vc.unsupportedf("unknown havoc class %q in %s", h, ct.Name)
		}
	}
	for _, a := range ct.Assigns {
		vc.havocLocation(st, sc, a, site)
	}
}

// havocLocation: assigns x.f | m[*] (map contents) | s[*] (slice elements) | *p
func (vc *FuncVC) havocLocation(st *State, sc *Scope, e Expr, site string) {
	defer func() {
		if r := recover(); r != nil {
			if se, is := r.(specError); is {
				vc.unsupportedf("contract error in %s/assigns: %s", site, se.msg)
				return
			}
			panic(r)
		}
	}()
	w := vc.w
	switch x := e.(type) {
	case EField:
		b := sc.eval(x.X)
		pt, ok := b.GT.Underlying().(*types.Pointer)
		if !ok {
			specFail("assigns %s: not a pointer", e)
		}
		nt, ok := pt.Elem().(*types.Named)
		if !ok {
			specFail("assigns %s: not a named struct", e)
		}
		stt := nt.Underlying().(*types.Struct)
		if x.F == "*" {
			for i := 0; i < stt.NumFields(); i++ {
				f := stt.Field(i)
				if isSyncType(f.Type()) {
					continue
				}
				fs := w.sortOf(f.Type())
				hn, hs := fieldHeapName(nt, f), arraySort(SInt, fs)
				st.heapSet(hn, hs, sto(st.heapGet(hn, hs), b.T, st.fresh("hv", fs)))
			}
			return
		}
		for i := 0; i < stt.NumFields(); i++ {
			f := stt.Field(i)
			if f.Name() == x.F {
				fs := w.sortOf(f.Type())
				hn, hs := fieldHeapName(nt, f), arraySort(SInt, fs)
				nv := st.freshV("hv", f.Type())
				vc.assumeTypeWF(st, nv, f.Type())
				st.heapSet(hn, hs, sto(st.heapGet(hn, hs), b.T, nv.T))
				return
			}
		}
		specFail("assigns %s: no such field", e)
	case ECall:
		if x.Fn == "pointee" && len(x.Args) == 1 {
			b := sc.eval(x.Args[0])
			p := st.heapGet("Pointee", arraySort(SInt, SIface))
			st.heapSet("Pointee", arraySort(SInt, SIface), sto(p, app("uInt", app("pay", b.T)), st.fresh("hv", SIface)))
			return
		}
		if x.Fn == "contents" && len(x.Args) == 1 {
			b := sc.eval(x.Args[0])
			switch u := b.GT.Underlying().(type) {
			case *types.Map:
				ks, vs := w.sortOf(u.Key()), w.sortOf(u.Elem())
				dn, dso, vn, vso := mapHeaps(w, u)
				st.heapSet(dn, dso, sto(st.heapGet(dn, dso), b.T, st.fresh("hv", arraySort(ks, SBool))))
				st.heapSet(vn, vso, sto(st.heapGet(vn, vso), b.T, st.fresh("hv", arraySort(ks, vs))))
				return
			case *types.Slice:
				es := w.sortOf(u.Elem())
				hn, hs := elemsHeap(es)
				st.heapSet(hn, hs, sto(st.heapGet(hn, hs), app("sarr", b.T), st.fresh("hv", arraySort(SInt, es))))
				return
			}
		}
		specFail("assigns %s: unsupported", e)
	case EUnary:
		if x.Op == "*" {
			b := sc.eval(x.X)
			pt := b.GT.Underlying().(*types.Pointer)
			so := w.sortOf(pt.Elem())
			hn, hs := cellHeap(so)
			st.heapSet(hn, hs, sto(st.heapGet(hn, hs), b.T, st.fresh("hv", so)))
			return
		}
	}
	specFail("assigns %s: unsupported", e)
}

// ---------------------------------------------------------------- interface methods

func (vc *FuncVC) invokeMethod(st *State, fr *Frame, instr ssa.Instruction, cc *ssa.CallCommon, site string, recv V, args []any, inTop bool) []any {
	m := cc.Method.Name()
	it := cc.Value.Type()
	vc.nopanic(st, "nil-iface-call", instr, not(eq(recv.T, "nilI")))
	// context.Context
	if nt, ok := it.(*types.Named); ok && nt.Obj().Pkg() != nil && nt.Obj().Pkg().Path() == "context" {
		return vc.ctxMethod(st, recv, m, site)
	}
	if nt, ok := it.(*types.Named); ok && nt.Obj().Pkg() != nil && nt.Obj().Pkg().Path() == "reflect" && nt.Obj().Name() == "Type" {
		if res, ok := vc.reflectTypeMethod(st, instr, recv, m, args); ok {
			return res
		}
	}
	// abstract contract: exact interface name, or any interface of the package declaring the method
	var ct *Contract
	var key string
	for _, name := range vc.eng.spec.Order {
		c := vc.eng.spec.Contracts[name]
		if !c.Abstract {
			continue
		}
		parts := strings.SplitN(name, ".", 2)
		if len(parts) != 2 || parts[1] != m {
			continue
		}
		obj := vc.eng.pkg.Types.Scope().Lookup(parts[0])
		if obj == nil {
			continue
		}
		dit, ok := obj.Type().Underlying().(*types.Interface)
		if !ok {
			continue
		}
		// the called interface must include the declaring interface's method
		if types.Implements(it, dit) || types.Identical(it.Underlying(), dit) || ifaceHasMethodOf(it, dit, m) {
			ct, key = c, name
			break
		}
	}
	if ct == nil {
		vc.unsupportedf("call of interface method %s without an abstract contract", site)
		panic(abortPath{"iface"})
	}
	var r *CallRule
	if inTop {
		r = vc.findRule("call", key)
	}
	if r != nil {
		vc.ruleRequires(st, r, site, args)
	} else if contains(ct.Havoc, "user") {
		n := "unexpected-call:" + site
		vc.addUnreachable(st, "unexpected-call", n, nil)
	}
	res := vc.callAbstract(st, fr, instr, ct, cc.Signature(), args, site)
	if r != nil {
		vc.ruleEffects(st, r, site, args, res)
	}
	return res
}

func ifaceHasMethodOf(it types.Type, decl *types.Interface, m string) bool {
	ii, ok := it.Underlying().(*types.Interface)
	if !ok {
		return false
	}
	for i := 0; i < ii.NumMethods(); i++ {
		if ii.Method(i).Name() == m {
			for j := 0; j < decl.NumMethods(); j++ {
				if decl.Method(j).Name() == m && types.Identical(ii.Method(i).Type(), decl.Method(j).Type()) {
					return true
				}
			}
		}
	}
	return false
}

func contains(xs []string, s string) bool {
	for _, x := range xs {
		if x == s {
			return true
		}
	}
	return false
}

// callAbstract: a call of user code through an interface (or an unknown function value).
func (vc *FuncVC) callAbstract(st *State, fr *Frame, instr ssa.Instruction, ct *Contract, sig *types.Signature, args []any, site string) []any {
	vars := map[string]any{}
	for i, p := range ct.Params {
		if i < len(args) && p != "_" {
			vars[p] = args[i]
		}
	}
	isUser := contains(ct.Havoc, "user")
	sc := vc.newScope(st, vars)
	heapBefore := map[string]string{}
	for k, v := range st.heap {
		heapBefore[k] = v
	}
	ghostBefore := map[string]V{}
	for k, v := range st.ghost {
		ghostBefore[k] = v
	}
	if isUser {
		vc.userEffect(st)
		vc.countCallback(st)
	}
	for _, a := range ct.Assigns {
		vc.havocLocation(st, sc, a, site)
	}
	var res []any
	var names []string
	for i := 0; i < sig.Results().Len(); i++ {
		rt := sig.Results().At(i).Type()
		v := st.freshV("cb_"+mangle(ct.Name), rt)
		vc.assumeTypeWF(st, v, rt)
		res = append(res, v)
		names = append(names, v.T)
		if i < len(ct.Results) && ct.Results[i] != "_" {
			vars[ct.Results[i]] = v
		}
	}
	post := sc.withOld(heapBefore, ghostBefore)
	for _, c := range ct.Ensures {
		if !vc.inProp(c.Tags) {
			continue
		}
		g, ok := vc.safeBool(post, c.E, ct.Name+"/ensures")
		if ok {
			st.assume(g)
		}
	}
	st.event("callback %s -> %s", site, strings.Join(names, ","))
	return res
}

// unknownFuncCall: call of a function value the engine cannot resolve: user code.
func (vc *FuncVC) unknownFuncCall(st *State, fr *Frame, instr ssa.Instruction, cc *ssa.CallCommon, site string, args []any, inTop bool) []any {
	desc := describeValue(cc.Value)
	var rule *CallRule
	if inTop {
		rule = vc.findRule("call", desc)
		if rule == nil {
			// a captured variable may be known to the contract under a type-bound local name
			var fv *ssa.FreeVar
			switch x := cc.Value.(type) {
			case *ssa.FreeVar:
				fv = x
			case *ssa.UnOp:
				fv, _ = x.X.(*ssa.FreeVar)
			}
			if fv != nil {
				names := vc.eng.freeVarNames(vc.fn, vc.contract, vc.w)
				for i, f := range vc.fn.FreeVars {
					if f == fv {
						rule = vc.findRule("call", "var "+names[i])
					}
				}
			}
		}
	}
	if rule != nil {
		vc.ruleRequires(st, rule, site, args)
	} else {
		name := "unexpected-call:" + site
		vc.addUnreachable(st, "unexpected-call", name, nil)
	}
	vc.userEffect(st)
	vc.countCallback(st)
	// a function value of an in-package option type may mutate the object it is given (its declared purpose)
	vc.funcValueFrame(st, cc, args)
	sig := cc.Signature()
	var res []any
	var names []string
	for i := 0; i < sig.Results().Len(); i++ {
		rt := sig.Results().At(i).Type()
		v := st.freshV("fv", rt)
		vc.assumeTypeWF(st, v, rt)
		res = append(res, v)
		names = append(names, v.T)
	}
	if rule != nil {
		vc.ruleEffects(st, rule, site, args, res)
	}
	st.event("callback %s -> %s", site, strings.Join(names, ","))
	return res
}

// funcValueFrame: unknown functions that receive a pointer to a framework
// object (NodeOption, func(*CustomNode)) may write that object's fields.
func (vc *FuncVC) funcValueFrame(st *State, cc *ssa.CallCommon, args []any) {
	w := vc.w
	for i, a := range cc.Args {
		pt, ok := a.Type().Underlying().(*types.Pointer)
		if !ok {
			continue
		}
		nt, ok := pt.Elem().(*types.Named)
		if !ok || !isObjectStruct(nt) || nt.Obj().Name() == "SharedStore" {
			continue
		}
		v, ok := args[i+1].(V) // args[0] is the function value itself
		if !ok {
			continue
		}
		stt := nt.Underlying().(*types.Struct)
		for j := 0; j < stt.NumFields(); j++ {
			f := stt.Field(j)
			if isSyncType(f.Type()) {
				continue
			}
			fs := w.sortOf(f.Type())
			hn, hs := fieldHeapName(nt, f), arraySort(SInt, fs)
			nv := st.freshV("opt", f.Type())
			vc.assumeTypeWF(st, nv, f.Type())
			st.heapSet(hn, hs, sto(st.heapGet(hn, hs), v.T, nv.T))
		}
	}
}

// ---------------------------------------------------------------- context / time (T7, T8)

func (vc *FuncVC) ctxErrTerm(ctx V) string {
	vc.w.declare("ctxErr", "(declare-fun ctxErr (Iface) Iface)\n(assert (forall ((c Iface)) (! (not (= (ctxErr c) nilI)) :pattern ((ctxErr c)))))")
	return app("ctxErr", ctx.T)
}

func (vc *FuncVC) ctxMethod(st *State, recv V, m string, site string) []any {
	vc.trusted["T8 context: Err() is nil until cancelled, then a fixed non-nil value; Done() is closed iff cancelled"] = true
	switch m {
	case "Err":
		c := st.ghost["cancelled"].T
		st.ghost["sawCancel"] = V{or(st.ghost["sawCancel"].T, c), SBool, nil}
		st.event("ctx.Err (cancelled=%s)", c)
		return []any{V{ite(c, vc.ctxErrTerm(recv), "nilI"), SIface, nil}}
	case "Done":
		ch := st.fresh("donech", SInt)
		st.assume(app(">", ch, "0"))
		st.ghost["chan:"+ch] = V{"done", "chankind", nil}
		return []any{V{ch, SInt, nil}}
	}
	vc.unsupportedf("context method %s", m)
	panic(abortPath{"ctx"})
}

var verbRe = regexp.MustCompile(`%[-+# 0]*[0-9]*(\.[0-9]+)?[a-zA-Z%]`)

// sliceElems returns the elements of a slice whose length is a known constant (varargs).
func (vc *FuncVC) sliceElems(st *State, s V, es string) ([]string, bool) {
	// look for mkSlice ref 0 n n
	t := s.T
	if !strings.HasPrefix(t, "(mkSlice ") {
		return nil, false
	}
	f := strings.Fields(strings.TrimSuffix(strings.TrimPrefix(t, "(mkSlice "), ")"))
	if len(f) != 4 || f[1] != "0" {
		return nil, false
	}
	n := 0
	if _, err := fmt.Sscanf(f[2], "%d", &n); err != nil {
		return nil, false
	}
	hn, hs := elemsHeap(es)
	var out []string
	for i := 0; i < n; i++ {
		out = append(out, sel(sel(st.heapGet(hn, hs), f[0]), fmt.Sprint(i)))
	}
	return out, true
}

func (vc *FuncVC) libCall(st *State, fr *Frame, instr ssa.Instruction, callee *ssa.Function, args []any, site string) ([]any, bool) {
	name := callee.String()
	switch name {
	case "fmt.Errorf":
		vc.trusted["T9 fmt.Errorf returns a fresh non-nil error that wraps each %w operand; errors.Is is reflexive and follows wrapping"] = true
		r := st.fresh("errorf", SIface)
		st.assume(not(eq(r, "nilI")))
		if c, ok := instr.(ssa.CallInstruction).Common().Args[0].(*ssa.Const); ok && c.Value != nil {
			format := constant.StringVal(c.Value)
			if sl, ok := args[1].(V); ok {
				if elems, ok := vc.sliceElems(st, sl, SIface); ok {
					verbs := verbRe.FindAllString(format, -1)
					k := 0
					for _, v := range verbs {
						if v == "%%" {
							continue
						}
						if strings.HasSuffix(v, "w") && k < len(elems) {
							st.assume(implies(not(eq(elems[k], "nilI")), app("wraps", r, elems[k])))
						}
						k++
					}
				}
			}
		}
		return []any{V{r, SIface, nil}}, true
	case "errors.Is":
		vc.trusted["T9 fmt.Errorf returns a fresh non-nil error that wraps each %w operand; errors.Is is reflexive and follows wrapping"] = true
		a, b := args[0].(V), args[1].(V)
		return []any{V{and(not(eq(a.T, "nilI")), app("Is", a.T, b.T)), SBool, types.Typ[types.Bool]}}, true
	case "errors.New":
		r := st.fresh("errnew", SIface)
		st.assume(not(eq(r, "nilI")))
		return []any{V{r, SIface, nil}}, true
	case "context.Cause":
		// nil until cancelled, then some non-nil error that need not match ctx.Err() (a cause set by the canceller)
		vc.trusted["T8 context: Cause(ctx) is nil until ctx is cancelled, then a non-nil error (not necessarily matching Err())"] = true
		vc.w.declare("ctxCause", "(declare-fun ctxCause (Iface) Iface)")
		x := args[0].(V)
		c := st.ghost["cancelled"].T
		st.ghost["sawCancel"] = V{or(st.ghost["sawCancel"].T, c), SBool, nil}
		st.event("context.Cause (cancelled=%s)", c)
		st.assume(not(eq(app("ctxCause", x.T), "nilI")))
		return []any{V{ite(c, app("ctxCause", x.T), "nilI"), SIface, nil}}, true
	case "fmt.Sprintf", "fmt.Sprint":
		return []any{V{st.fresh("sprintf", SStr), SStr, types.Typ[types.String]}}, true
	case "time.NewTimer":
		// T7 for timers: t.C is not ready before the moment of creation (or of the last Reset) plus d
		vc.trusted["T7 time.NewTimer(d)/Reset(d): the timer's channel is not ready before now+d; Stop has no effect the proofs rely on"] = true
		d := args[0].(V)
		ref := st.alloc("timer")
		ref.GT = callee.Signature.Results().At(0).Type()
		st.ghost["timer:"+ref.T] = V{app("+", st.ghost["now"].T, d.T), "timer", nil}
		return []any{ref}, true
	case "(*time.Timer).Stop":
		return []any{st.freshV("timerstop", types.Typ[types.Bool])}, true
	case "(*time.Timer).Reset":
		t, d := args[0].(V), args[1].(V)
		if _, ok := st.ghost["timer:"+t.T]; !ok {
			return nil, false
		}
		st.ghost["timer:"+t.T] = V{app("+", st.ghost["now"].T, d.T), "timer", nil}
		return []any{st.freshV("timerreset", types.Typ[types.Bool])}, true
	case "time.After":
		vc.trusted["T7 time.After(d): the channel is not ready before now+d"] = true
		d := args[0].(V)
		ch := st.fresh("timerch", SInt)
		st.assume(app(">", ch, "0"))
		st.ghost["chan:"+ch] = V{app("+", st.ghost["now"].T, d.T), "timer", nil}
		return []any{V{ch, SInt, nil}}, true
	}
	if strings.HasPrefix(name, "maps.Clone[") || strings.HasPrefix(name, "maps.Copy[") || strings.HasPrefix(name, "slices.Clone[") {
		return vc.cloneCall(st, fr, instr, callee, args)
	}
	if strings.HasPrefix(name, "(*sync.") {
		return vc.syncCall(st, fr, instr, callee, args, site)
	}
	if strings.HasPrefix(name, "reflect.") || strings.HasPrefix(name, "(reflect.") || strings.HasPrefix(name, "(*reflect.") ||
		strings.HasPrefix(name, "encoding/json.") {
		return vc.reflectCall(st, fr, instr, callee, args, site)
	}
	return nil, false
}

// ---------------------------------------------------------------- select / channels

func (vc *FuncVC) doSelect(st *State, fr *Frame, in *ssa.Select) []*State {
	type caseInfo struct {
		kind string // "timer", "done", "chan"
		ch   V
		aux  string
	}
	var cases []caseInfo
	for _, s := range in.States {
		ch := vc.valV(st, fr, s.Chan)
		ci := caseInfo{kind: "chan", ch: ch}
		if tref, ok := vc.timerOf(st, fr, s.Chan); ok {
			if g, ok := st.ghost["timer:"+tref]; ok {
				ci.kind, ci.aux = "timer", g.T
			}
		} else if g, ok := st.ghost["chan:"+ch.T]; ok {
			ci.kind = g.S
			if g.S == "chankind" {
				ci.kind = g.T
			}
			ci.aux = g.T
		}
		if s.Dir != types.RecvOnly {
			vc.unsupportedf("send case in select")
			panic(abortPath{"select-send"})
		}
		cases = append(cases, ci)
	}
	vc.trusted["T5 a blocking select returns the index of a ready case"] = true
	idx := st.fresh("selidx", SInt)
	n := len(cases)
	lo := "0"
	if !in.Blocking {
		lo = "(- 1)"
	}
	st.assume(and(app("<=", lo, idx), app("<", idx, fmt.Sprint(n))))
	// time passes and the context may be cancelled while blocked
	oldC := st.ghost["cancelled"].T
	c := st.fresh("cancelled", SBool)
	st.assume(implies(oldC, c))
	now := st.fresh("now", SInt)
	st.assume(app(">=", now, st.ghost["now"].T))
	hasDone := false
	for i, ci := range cases {
		is := eq(idx, fmt.Sprint(i))
		switch ci.kind {
		case "done":
			hasDone = true
			st.assume(implies(is, c))
		case "timer":
			st.assume(implies(is, app(">=", now, ci.aux)))
		}
	}
	if hasDone {
		// a case other than Done firing is indistinguishable from "not yet cancelled"
		for i, ci := range cases {
			if ci.kind != "done" {
				st.assume(implies(eq(idx, fmt.Sprint(i)), eq(c, oldC)))
			}
		}
		sawIdx := "false"
		for i, ci := range cases {
			if ci.kind == "done" {
				sawIdx = or(sawIdx, eq(idx, fmt.Sprint(i)))
			}
		}
		st.ghost["sawCancel"] = V{or(st.ghost["sawCancel"].T, sawIdx), SBool, nil}
	}
	st.ghost["cancelled"] = V{c, SBool, nil}
	st.ghost["now"] = V{now, SInt, nil}
	st.ghost["lastSelectBlocking"] = V{fmt.Sprint(in.Blocking), SBool, nil}
	tup := Tuple{V{idx, SInt, nil}, V{st.fresh("recvok", SBool), SBool, nil}}
	for _, s := range in.States {
		et := s.Chan.Type().Underlying().(*types.Chan).Elem()
		rv := st.freshV("recv", et)
		vc.assumeTypeWF(st, rv, et)
		tup = append(tup, rv)
	}
	vc.chanSelectFacts(st, fr, in, idx, tup)
	fr.env[in] = tup
	st.ghost["lastSelIdx"] = V{idx, SInt, nil}
	st.ghost["lastRecvOk"] = tup[1].(V)
	for i := 2; i < len(tup); i++ {
		st.ghost[fmt.Sprintf("lastRecv%d", i-2)] = tup[i].(V)
	}
	st.event("select -> %s", idx)
	if r := vc.findRule("select", "any"); r != nil {
		vc.ruleRequires(st, r, "select", nil)
		vc.ruleEffects(st, r, "select", nil, nil)
	}
	return nil
}

// timerOf: the channel operand is t.C for a *time.Timer t created in this activation.
func (vc *FuncVC) timerOf(st *State, fr *Frame, ch ssa.Value) (string, bool) {
	u, ok := ch.(*ssa.UnOp)
	if !ok {
		return "", false
	}
	fa, ok := u.X.(*ssa.FieldAddr)
	if !ok {
		return "", false
	}
	pt, ok := fa.X.Type().Underlying().(*types.Pointer)
	if !ok {
		return "", false
	}
	nt, ok := pt.Elem().(*types.Named)
	if !ok || nt.Obj().Pkg() == nil || nt.Obj().Pkg().Path() != "time" || nt.Obj().Name() != "Timer" {
		return "", false
	}
	t, ok := vc.val(st, fr, fa.X).(V)
	if !ok {
		return "", false
	}
	return t.T, true
}

// ---------------------------------------------------------------- defers

func (vc *FuncVC) runDefers(st *State, fr *Frame) []*State {
	if len(st.frames) == 1 {
		st.ghost["inDefers"] = V{"true", SBool, nil}
	}
	// LIFO
	fr.pendingDefers = nil
	for i := len(fr.defers) - 1; i >= 0; i-- {
		fr.pendingDefers = append(fr.pendingDefers, fr.defers[i])
	}
	fr.defers = nil
	return vc.continueDefers(st, fr)
}

func (vc *FuncVC) continueDefers(st *State, fr *Frame) []*State {
	for len(fr.pendingDefers) > 0 {
		d := fr.pendingDefers[0]
		fr.pendingDefers = fr.pendingDefers[1:]
		depth := len(st.frames)
		forks := vc.invokeDeferred(st, fr, d)
		if forks != nil {
			return forks
		}
		if len(st.frames) > depth {
			return nil // inlined: continues on return
		}
	}
	return nil
}

func (vc *FuncVC) invokeDeferred(st *State, fr *Frame, d deferred) []*State {
	cc := d.instr.Common()
	site := vc.siteName(fr.fn, d.instr, callTargetName(cc))
	if len(st.frames) > 1 {
		site += "@" + relName(fr.fn)
	}
	inTop := true
	if cc.IsInvoke() {
		recv := d.fn.(V)
		args := append([]any{recv}, d.args...)
		vc.invokeMethod(st, fr, d.instr, cc, site, recv, args, inTop)
		return nil
	}
	callee := cc.StaticCallee()
	var bindings []any
	if callee == nil {
		if c, ok := d.fn.(*Closure); ok {
			callee, bindings = c.Fn, c.Bindings
		} else {
			vc.unsupportedf("deferred call of unknown function value in %s", fr.fn.Name())
			panic(abortPath{"defer"})
		}
	} else if c, ok := d.fn.(*Closure); ok {
		bindings = c.Bindings
	}
	return vc.callFunction(st, fr, d.instr, callee, bindings, d.args, site, inTop)
}

// ---------------------------------------------------------------- go statements

func (vc *FuncVC) doGo(st *State, fr *Frame, instr ssa.Instruction, cc *ssa.CallCommon, site string) []*State {
	vc.trusted["T4 a go statement starts exactly one goroutine running the given call"] = true
	target := callTargetName(cc)
	args := vc.evalArgs(st, fr, cc)
	r := vc.findRule("go", target)
	if r == nil {
		vc.addUnreachable(st, "unexpected-go", "unexpected-go:"+site, nil)
		return nil
	}
	vc.ruleRequires(st, r, "go:"+site, args)
	vc.ruleEffects(st, r, "go:"+site, args, nil)
	st.ghost["spawned"] = V{app("+", st.ghost["spawned"].T, "1"), SInt, nil}
	st.event("go %s", target)
	return nil
}

// cloneCall: maps.Clone, maps.Copy, slices.Clone (the generic library idioms for the hand-written copy loops).
func (vc *FuncVC) cloneCall(st *State, fr *Frame, instr ssa.Instruction, callee *ssa.Function, args []any) ([]any, bool) {
	w := vc.w
	name := callee.String()
	var argVals []ssa.Value
	if ci, ok := instr.(ssa.CallInstruction); ok {
		argVals = ci.Common().Args
	}
	vc.trusted["maps.Clone / maps.Copy / slices.Clone behave as documented (shallow copies)"] = true
	switch {
	case strings.HasPrefix(name, "maps.Clone["):
		mt, ok := callee.Signature.Params().At(0).Type().Underlying().(*types.Map)
		if !ok || len(argVals) < 1 {
			return nil, false
		}
		m := args[0].(V)
		vc.checkMapRead(st, fr, argVals[0], m, instr)
		ref := st.alloc("map")
		dn, dso, vn, vso := mapHeaps(w, mt)
		dom, val := st.heapGet(dn, dso), st.heapGet(vn, vso)
		st.heapSet(dn, dso, sto(dom, ref.T, sel(dom, m.T)))
		st.heapSet(vn, vso, sto(val, ref.T, sel(val, m.T)))
		return []any{V{ite(eq(m.T, "0"), "0", ref.T), SInt, callee.Signature.Results().At(0).Type()}}, true
	case strings.HasPrefix(name, "maps.Copy["):
		mt, ok := callee.Signature.Params().At(0).Type().Underlying().(*types.Map)
		if !ok || len(argVals) < 2 {
			return nil, false
		}
		dst, src := args[0].(V), args[1].(V)
		vc.checkMapWrite(st, fr, argVals[0], dst, instr)
		vc.checkMapRead(st, fr, argVals[1], src, instr)
		ks, vs := w.sortOf(mt.Key()), w.sortOf(mt.Elem())
		dn, dso, vn, vso := mapHeaps(w, mt)
		dom, val := st.heapGet(dn, dso), st.heapGet(vn, vso)
		sd := ite(eq(src.T, "0"), w.zero(arraySort(ks, SBool)), sel(dom, src.T))
		vc.nopanic(st, "copy-into-nil-map", instr, or(not(eq(dst.T, "0")), eq(sd, w.zero(arraySort(ks, SBool)))))
		nd := st.fresh("copydom", arraySort(ks, SBool))
		nv := st.fresh("copyval", arraySort(ks, vs))
		st.assume(fmt.Sprintf("(forall ((k %s)) (! (= (select %s k) (or (select %s k) (select %s k))) :pattern ((select %s k))))", ks, nd, sel(dom, dst.T), sd, nd))
		st.assume(fmt.Sprintf("(forall ((k %s)) (! (= (select %s k) (ite (select %s k) (select %s k) (select %s k))) :pattern ((select %s k))))", ks, nv, sd, sel(val, src.T), sel(val, dst.T), nv))
		st.heapSet(dn, dso, ite(eq(dst.T, "0"), dom, sto(dom, dst.T, nd)))
		st.heapSet(vn, vso, ite(eq(dst.T, "0"), val, sto(val, dst.T, nv)))
		return nil, true
	case strings.HasPrefix(name, "slices.Clone["):
		stp, ok := callee.Signature.Params().At(0).Type().Underlying().(*types.Slice)
		if !ok {
			return nil, false
		}
		s := args[0].(V)
		es := w.sortOf(stp.Elem())
		hn, hs := elemsHeap(es)
		arr := st.alloc("arr")
		cur := st.heapGet(hn, hs)
		na := st.fresh("clonearr", arraySort(SInt, es))
		st.assume(fmt.Sprintf("(forall ((j Int)) (! (=> (and (<= 0 j) (< j (slen %s))) (= (select %s j) (select %s (+ (soff %s) j)))) :pattern ((select %s j))))", s.T, na, sel(cur, app("sarr", s.T)), s.T, na))
		st.heapSet(hn, hs, sto(cur, arr.T, na))
		ncap := st.fresh("clonecap", SInt)
		st.assume(app(">=", ncap, app("slen", s.T)))
		st.assume(intRange(types.Typ[types.Int], ncap))
		r := ite(eq(app("sarr", s.T), "0"), s.T, app("mkSlice", arr.T, "0", app("slen", s.T), ncap))
		return []any{V{r, SSlice, callee.Signature.Results().At(0).Type()}}, true
	}
	return nil, false
}

// effectFreeExternal: logging, printing, formatting, string/number helpers and clock reads. They cannot
// reach framework state (assumption: String()/Error()/Format methods they may invoke on their operands are
// pure); results are unconstrained values of their types. Functions that end the process or panic by design
// (log.Fatal*, log.Panic*) are not in the list.
func (vc *FuncVC) effectFreeExternal(st *State, callee *ssa.Function) ([]any, bool) {
	name := callee.String()
	ok := false
	for _, p := range []string{"log.Print", "(*log.Logger).Print", "log.Default", "log.New", "fmt.Print", "fmt.Fprint", "fmt.Sprint", "fmt.Append",
		"strings.", "strconv.", "math.", "unicode.", "unicode/utf8.", "time.Now", "time.Since", "time.Until", "(time.Time).", "(time.Duration).",
		"os.Getenv", "errors.Unwrap", "log/slog.Debug", "log/slog.Info", "log/slog.Warn", "log/slog.Error", "(*log/slog.Logger).Debug", "(*log/slog.Logger).Info",
		"(*log/slog.Logger).Warn", "(*log/slog.Logger).Error", "log/slog.Default", "log/slog.String", "log/slog.Int", "log/slog.Any",
		"(*sync/atomic.Int64).", "(*sync/atomic.Int32).", "sync/atomic.AddInt64", "sync/atomic.AddInt32", "sync/atomic.LoadInt64", "sync/atomic.LoadInt32"} {
		if strings.HasPrefix(name, p) {
			ok = true
			break
		}
	}
	if !ok {
		return nil, false
	}
	sig := callee.Signature
	for i := 0; i < sig.Params().Len(); i++ {
		if _, isFunc := sig.Params().At(i).Type().Underlying().(*types.Signature); isFunc {
			return nil, false
		}
	}
	var res []any
	for i := 0; i < sig.Results().Len(); i++ {
		rt := sig.Results().At(i).Type()
		so := vc.w.sortOf(rt)
		if so == "Opaque" || so == "Tuple" {
			return nil, false
		}
		v := st.freshV("ext_"+callee.Name(), rt)
		vc.assumeTypeWF(st, v, rt)
		res = append(res, v)
	}
	vc.trusted["external function "+name+": logging/formatting/clock helper, modelled as having no effect on framework state (String/Error/Format methods it may call are assumed pure) and unconstrained results"] = true
	return res, true
}

// valueOnlyExternal: an external function all of whose parameters are plain
// values (numbers, strings, booleans) cannot reach framework state; its
// results are modelled as unconstrained values of their types. Assumed not to
// panic and not to block (recorded as an assumption).
func (vc *FuncVC) valueOnlyExternal(st *State, callee *ssa.Function) ([]any, bool) {
	sig := callee.Signature
	plain := func(t types.Type) bool {
		b, ok := t.Underlying().(*types.Basic)
		return ok && b.Kind() != types.UnsafePointer
	}
	if sig.Recv() != nil && !plain(sig.Recv().Type()) {
		return nil, false
	}
	for i := 0; i < sig.Params().Len(); i++ {
		if !plain(sig.Params().At(i).Type()) {
			return nil, false
		}
	}
	name := callee.String()
	if name == "time.Sleep" || strings.HasPrefix(name, "os.") || strings.HasPrefix(name, "runtime.") || strings.HasPrefix(name, "syscall.") {
		return nil, false
	}
	var res []any
	for i := 0; i < sig.Results().Len(); i++ {
		rt := sig.Results().At(i).Type()
		so := vc.w.sortOf(rt)
		if so == "Opaque" || so == "Tuple" {
			return nil, false
		}
		v := st.freshV("ext_"+callee.Name(), rt)
		vc.assumeTypeWF(st, v, rt)
		if _, isPtr := rt.Underlying().(*types.Pointer); isPtr {
			// a pointer handed out by the library is a fresh object for the framework
			a := st.alloc("extobj")
			st.assume(or(eq(v.T, "0"), eq(v.T, a.T)))
		}
		res = append(res, v)
	}
	vc.trusted["external function "+name+" takes only plain values: modelled as returning unconstrained results, assumed not to panic or block"] = true
	return res, true
}
