package main

// Loading /repo, setting up one function's verification, finishing paths.

import (
	"fmt"
	"go/token"
	"go/types"
	"os"
	"path/filepath"
	"sort"
	"strings"

	"golang.org/x/tools/go/packages"
	"golang.org/x/tools/go/ssa"
	"golang.org/x/tools/go/ssa/ssautil"
)

type Engine struct {
	repo     string
	fset     *token.FileSet
	pkg      *packages.Package
	prog     *ssa.Program
	spkg     *ssa.Package
	spec     *SpecFile
	funcs    map[string]*ssa.Function // relName -> function (incl. anonymous)
	lockTags []string
	panicTag map[string][]string
	loadSecs float64
	sortedNames []string
	flowTypes []*types.Map
	aliases   map[string]string // contract name of a moved closure -> the closure's real name
}

func (e *Engine) panicTagsFor(fn string) []string { return nil }

func loadEngine(repo string) (*Engine, error) {
	e := &Engine{repo: repo, fset: token.NewFileSet(), funcs: map[string]*ssa.Function{}}
	cfg := &packages.Config{Mode: packages.LoadAllSyntax, Dir: repo, Fset: e.fset, BuildFlags: []string{"-tags=verif"},
		Env: append(os.Environ(), "GOFLAGS=-mod=mod", "GOPROXY=off", "GOSUMDB=off", "GOTOOLCHAIN=local", "CGO_ENABLED=0")}
	pkgs, err := packages.Load(cfg, ".")
	if err != nil {
		return nil, err
	}
	if len(pkgs) != 1 {
		return nil, fmt.Errorf("expected one package, got %d", len(pkgs))
	}
	if len(pkgs[0].Errors) > 0 {
		var msgs []string
		for _, er := range pkgs[0].Errors {
			msgs = append(msgs, er.Error())
		}
		return nil, fmt.Errorf("package does not type-check: %s", strings.Join(msgs, "; "))
	}
	e.pkg = pkgs[0]
	prog, spkgs := ssautil.AllPackages(pkgs, ssa.InstantiateGenerics)
	prog.Build()
	e.prog = prog
	e.spkg = spkgs[0]
	var addFn func(f *ssa.Function)
	addFn = func(f *ssa.Function) {
		if f == nil || f.Synthetic != "" && f.Blocks == nil {
			return
		}
		e.funcs[relName(f)] = f
		for _, a := range f.AnonFuncs {
			addFn(a)
		}
	}
	for _, m := range e.spkg.Members {
		switch x := m.(type) {
		case *ssa.Function:
			addFn(x)
		case *ssa.Type:
			for _, t := range []types.Type{x.Type(), types.NewPointer(x.Type())} {
				ms := prog.MethodSets.MethodSet(t)
				for i := 0; i < ms.Len(); i++ {
					f := prog.MethodValue(ms.At(i))
					if f != nil && f.Pkg == e.spkg && f.Synthetic == "" {
						addFn(f)
					}
				}
			}
		}
	}
	specPath := filepath.Join(repo, "contracts_verif.go")
	sf, err := parseSpecFile(specPath)
	if err != nil {
		return nil, err
	}
	e.spec = sf
	e.resolveClosureAliases()
	return e, nil
}

// globalIndex: position of a package-level variable among the package's variables (sorted by name).
func (e *Engine) globalIndex(name string) int {
	var names []string
	for n, m := range e.spkg.Members {
		if _, ok := m.(*ssa.Global); ok {
			names = append(names, n)
		}
	}
	sort.Strings(names)
	for i, n := range names {
		if n == name {
			return i
		}
	}
	return len(names)
}

// resolveClosureAliases: a contract named F$k whose closure no longer exists under that name is
// bound to the k-th closure literal created in F's inline tree (F's own body and the bodies of the
// un-contracted in-package helpers it calls, in instruction order). Moving a closure literal into a
// helper (`p.tasks <- p.tracked(task)`) then keeps its contract; the contract is still verified
// against the closure's real body, the alias only names it.
func (e *Engine) resolveClosureAliases() {
	e.aliases = map[string]string{}
	var names []string
	for _, n := range e.spec.Order {
		names = append(names, n)
	}
	sort.Slice(names, func(i, j int) bool { return strings.Count(names[i], "$") < strings.Count(names[j], "$") })
	for _, name := range names {
		base := name
		if i := strings.Index(base, "+"); i >= 0 {
			continue
		}
		if e.funcs[base] != nil {
			continue
		}
		i := strings.LastIndex(base, "$")
		if i < 0 {
			continue
		}
		k := 0
		if _, err := fmt.Sscanf(base[i+1:], "%d", &k); err != nil || k < 1 {
			continue
		}
		parent := e.funcs[base[:i]]
		if parent == nil {
			continue
		}
		var found []*ssa.Function
		seen := map[*ssa.Function]bool{}
		var walk func(fn *ssa.Function, depth int)
		walk = func(fn *ssa.Function, depth int) {
			if fn == nil || seen[fn] || depth > maxInlineDepth || fn.Blocks == nil {
				return
			}
			seen[fn] = true
			for _, b := range fn.Blocks {
				for _, in := range b.Instrs {
					switch x := in.(type) {
					case *ssa.MakeClosure:
						if f, ok := x.Fn.(*ssa.Function); ok {
							found = append(found, f)
						}
					case ssa.CallInstruction:
						c := x.Common().StaticCallee()
						if c == nil || c.Pkg != e.spkg {
							continue
						}
						if ct := e.spec.Contracts[relName(c)]; ct != nil && !ct.Abstract {
							continue
						}
						if _, isClosure := x.Common().Value.(*ssa.MakeClosure); isClosure {
							continue
						}
						walk(c, depth+1)
					}
				}
			}
		}
		walk(parent, 0)
		if k > len(found) {
			continue
		}
		f := found[k-1]
		if _, taken := closureAlias[f]; taken {
			// a helper shared by several former closure sites: every one of their contracts is verified
			// against the one closure; callers see it under the first name
			e.aliases[name] = e.aliases[closureAlias[f]]
			e.funcs[name] = f
			continue
		}
		if e.spec.Contracts[relName(f)] != nil {
			continue
		}
		e.aliases[name] = relName(f)
		delete(e.funcs, relName(f))
		closureAlias[f] = name
		e.funcs[name] = f
	}
}

// newVC prepares the verification of one function for one property projection.
func (e *Engine) newVC(name, prop string) (*FuncVC, error) {
	fname, stage := name, ""
	if i := strings.Index(name, "+"); i >= 0 {
		fname, stage = name[:i], name[i+1:]
	}
	ct := e.spec.Contracts[name]
	fn := e.funcs[fname]
	if fn == nil && !(ct != nil && ct.IsLemma) {
		return nil, fmt.Errorf("contract for %s: no such function in the package", name)
	}
	vc := &FuncVC{eng: e, w: newWorld(e.pkg.Types), fn: fn, name: name, contract: ct, prop: prop,
		heapInits: map[string]string{}, heapSorts: map[string]string{}, glue: map[string][]glueCand{}, glueInit: map[string]bool{}, candDropped: map[string]bool{},
		loopInfos: map[*ssa.Function]*loopInfo{}, assumed: map[string]bool{}, trusted: map[string]bool{}, lemmaClauses: map[string][]string{}, maxPaths: 20000, compose: stage}
	return vc, nil
}

// symbolicRun executes the function once with the current glue sets.
func (vc *FuncVC) symbolicRun() {
	vc.decls = nil
	vc.nfresh = 0
	vc.heapInits = map[string]string{}
	vc.obligs = nil
	vc.unsupported = nil
	vc.paths = 1
	vc.returns = 0
	vc.aborted = ""
	vc.callOrds = nil
	vc.composeArgs = nil
	vc.deferredReq = nil
	vc.w = newWorld(vc.eng.pkg.Types)
	fn := vc.fn
	ct := vc.contract
	if ct != nil && ct.IsLemma {
		vc.lemmaRun()
		return
	}
	st := &State{vc: vc, heap: map[string]string{}, ghost: map[string]V{}, closures: map[string]*Closure{}, shadow: map[string]any{}, freshRefs: map[string]bool{}}
	fr := &Frame{fn: fn, env: map[ssa.Value]any{}, cuts: map[*ssa.BasicBlock]*loopCut{}, block: fn.Blocks[0]}
	st.frames = []*Frame{fr}
	vc.entryVars = map[string]any{}
	for i, p := range fn.Params {
		v := st.freshV("p_"+p.Name(), p.Type())
		vc.assumeTypeWF(st, v, p.Type())
		fr.env[p] = v
		if ct != nil && i < len(ct.Params) && ct.Params[i] != "_" {
			vc.entryVars[ct.Params[i]] = v
		}
	}
	fvNames := vc.eng.freeVarNames(fn, ct, vc.w)
	for fi, fv := range fn.FreeVars {
		v := st.freshV("fv_"+fv.Name(), fv.Type())
		vc.assumeTypeWF(st, v, fv.Type())
		if _, isPtr := fv.Type().Underlying().(*types.Pointer); isPtr {
			st.assume(not(eq(v.T, "0"))) // captured variables are never nil cells
		}
		fr.env[fv] = v
		vc.entryVars[fvNames[fi]] = v
	}
	vc.initBuiltinGhost(st)
	st.ghost["inDefers"] = V{"false", SBool, nil}
	st.ghost["lastSelIdx"] = V{"(- 1)", SInt, nil}
	st.ghost["lastRecvOk"] = V{"false", SBool, nil}
	func() {
		defer func() {
			if r := recover(); r != nil {
				if se, ok := r.(specError); ok {
					vc.unsupportedf("contract error in %s: %s", vc.name, se.msg)
					return
				}
				if _, ok := r.(abortPath); ok {
					return
				}
				panic(r)
			}
		}()
		sc := vc.newScope(st, vc.baseVars(st))
		if ct != nil {
			for _, c := range ct.Requires {
				if !vc.inProp(c.Tags) {
					continue
				}
				if vc.compose != "" {
					// clauses about second-stage parameters are assumed when that stage starts
					if g, ok := vc.tryBool(sc, c.E); ok {
						st.assume(g)
					} else {
						vc.deferredReq = append(vc.deferredReq, c)
					}
					continue
				}
				g, ok := vc.safeBool(sc, c.E, "requires")
				if ok {
					st.assume(g)
				}
			}
			for _, g := range ct.Ghosts {
				so, gt := vc.ghostSort(g.Typ)
				var v V
				if g.Init != nil {
					iv := sc.eval(g.Init)
					iv = sc.coerceNil(iv, V{S: so, GT: gt})
					if iv.S != so {
						specFail("ghost %s: initialiser has sort %s, want %s", g.Name, iv.S, so)
					}
					v = V{iv.T, so, gt}
				} else {
					v = V{st.fresh("g_"+g.Name, so), so, gt}
				}
				st.ghost[g.Name] = v
			}
			if ct.MayPanic {
				st.ghost["panicked"] = V{"false", SBool, nil}
			}
		}
		for _, ax := range vc.eng.spec.Axioms {
			g, ok := vc.safeBool(sc, ax.E, "axiom")
			if ok {
				st.assume(g)
			}
		}
	}()
	// entry snapshot
	st.heap0 = map[string]string{}
	for k, v := range st.heap {
		st.heap0[k] = v
	}
	st.ghost0 = map[string]V{}
	for k, v := range st.ghost {
		st.ghost0[k] = v
	}
	vc.addCover(st, "cover:entry")
	if len(vc.unsupported) == 0 {
		vc.run(st)
	}
}

// finish: a path of the function under verification returns.
func (vc *FuncVC) finish(st *State, fr *Frame, res []any) {
	vc.returns++
	ct := vc.contract
	vars := vc.baseVars(st)
	if ct != nil {
		for i, r := range ct.Results {
			if i < len(res) && r != "_" {
				vars[r] = res[i]
			}
		}
	}
	sc := vc.newScope(st, vars)
	var names []string
	for _, r := range res {
		if v, ok := r.(V); ok {
			names = append(names, v.T)
		}
	}
	st.event("return %s", strings.Join(names, ","))
	vc.addCover(st, "cover:return")
	// lock balance
	var hk []string
	for k := range st.heap {
		if strings.HasPrefix(k, "held@") {
			hk = append(hk, k)
		}
	}
	sort.Strings(hk)
	for _, k := range hk {
		if st.heap[k] != zeroIntArr() {
			vc.addOblig(st, "lock", "lock/released-at-return:"+strings.TrimPrefix(k, "held@"), vc.lockTags(), eq(st.heap[k], zeroIntArr()))
		}
	}
	if ct == nil {
		return
	}
	vc.frameCheck(st, sc, ct)
	panicPath := res == nil && ct.MayPanic && st.ghost["panicked"].T == "true"
	for _, c := range ct.Ensures {
		if !vc.inProp(c.Tags) {
			continue
		}
		if c.Lemma != "" {
			vc.lemmaClauses[c.Lemma] = append(vc.lemmaClauses[c.Lemma], c.Src)
			continue
		}
		if panicPath {
			// on a panic path only clauses that do not mention results are meaningful
			if _, ok := vc.tryBool(sc, c.E); !ok {
				continue
			}
		}
		g, _ := vc.safeBool(sc, c.E, "ensures")
		tag := ""
		if len(c.Tags) > 0 {
			disp := c.Tags
			if c.Disp != nil {
				disp = c.Disp
			}
			tag = "[" + strings.Join(disp, ",") + "]"
		}
		// each postcondition is checked independently (not assumed for the next one)
		save := len(st.pc)
		vc.addOblig(st, "ensures", fmt.Sprintf("ensures#%d%s", c.Ord, tag), c.Tags, g)
		st.pc = st.pc[:save]
	}
}

// frameCheck: every heap array the path changed may differ from its entry value
// only at objects the contract lists under assigns (or allocated by the function).
func (vc *FuncVC) frameCheck(st *State, sc *Scope, ct *Contract) {
	if !vc.inProp(ct.AssignTags) {
		return
	}
	allowed := map[string][]string{}
	whole := map[string]bool{}
	if contains(ct.Havoc, "user") {
		dn, _, vn, _ := mapHeaps(vc.w, userMapType)
		whole[dn], whole[vn], whole["H_SharedStore_data"] = true, true, true
		for _, mt := range vc.eng.flowTableTypes() {
			fd, _, fv, _ := mapHeaps(vc.w, mt)
			whole[fd], whole[fv] = true, true
		}
	}
	func() {
		defer func() {
			if r := recover(); r != nil {
				if se, ok := r.(specError); ok {
					vc.unsupportedf("contract error in assigns of %s: %s", ct.Name, se.msg)
					return
				}
				panic(r)
			}
		}()
		w := vc.w
		for _, a := range ct.Assigns {
			switch x := a.(type) {
			case EField:
				b := sc.old.eval(x.X)
				pt, ok := b.GT.Underlying().(*types.Pointer)
				if !ok {
					specFail("assigns %s: not a pointer", a)
				}
				nt, ok := pt.Elem().(*types.Named)
				if !ok {
					specFail("assigns %s: not a named struct", a)
				}
				stt := nt.Underlying().(*types.Struct)
				for i := 0; i < stt.NumFields(); i++ {
					f := stt.Field(i)
					if x.F == "*" || f.Name() == x.F {
						hn := fieldHeapName(nt, f)
						allowed[hn] = append(allowed[hn], b.T)
					}
				}
			case ECall:
				if x.Fn == "pointee" && len(x.Args) == 1 {
					b := sc.old.eval(x.Args[0])
					allowed["Pointee"] = append(allowed["Pointee"], app("uInt", app("pay", b.T)))
					continue
				}
				if x.Fn != "contents" || len(x.Args) != 1 {
					specFail("assigns %s: unsupported", a)
				}
				b := sc.old.eval(x.Args[0])
				switch u := b.GT.Underlying().(type) {
				case *types.Map:
					dn, _, vn, _ := mapHeaps(w, u)
					allowed[dn] = append(allowed[dn], b.T)
					allowed[vn] = append(allowed[vn], b.T)
				case *types.Slice:
					hn, _ := elemsHeap(w.sortOf(u.Elem()))
					allowed[hn] = append(allowed[hn], app("sarr", b.T))
				default:
					specFail("assigns %s: unsupported", a)
				}
			case EUnary:
				b := sc.old.eval(x.X)
				pt := b.GT.Underlying().(*types.Pointer)
				hn, _ := cellHeap(w.sortOf(pt.Elem()))
				allowed[hn] = append(allowed[hn], b.T)
			default:
				specFail("assigns %s: unsupported", a)
			}
		}
	}()
	alive0 := vc.heapInit("alive", aliveSort)
	var names []string
	for k := range st.heap {
		names = append(names, k)
	}
	sort.Strings(names)
	for _, h := range names {
		if h == "alive" || strings.Contains(h, "@") || whole[h] {
			continue
		}
		init, ok := vc.heapInits[h]
		if !ok || st.heap[h] == init {
			continue
		}
		conds := []string{sel(alive0, "r")}
		for _, a := range allowed[h] {
			conds = append(conds, not(eq("r", a)))
		}
		goal := fmt.Sprintf("(forall ((r Int)) (=> %s (= (select %s r) (select %s r))))", and(conds...), st.heap[h], init)
		save := len(st.pc)
		vc.addOblig(st, "frame", "frame:"+h, ct.AssignTags, goal)
		st.pc = st.pc[:save]
	}
}

// composeStep: for a composed contract "F+call" / "F+<method>" the value F
// returned is applied (called, or its method invoked) to fresh arguments and
// the contract's postconditions are checked after that second stage.
func (vc *FuncVC) composeStep(st *State, res []any) {
	st.composed = true
	if len(res) != 1 {
		vc.unsupportedf("compose: %s does not return exactly one value", vc.fn.Name())
		panic(abortPath{"compose"})
	}
	var target *ssa.Function
	var bindings, args []any
	if vc.compose == "call" {
		var c *Closure
		switch x := res[0].(type) {
		case *Closure:
			c = x
		case V:
			c = st.closures[x.T]
		}
		if c == nil {
			vc.unsupportedf("compose: result of %s is not a known closure", vc.fn.Name())
			panic(abortPath{"compose"})
		}
		target, bindings = c.Fn, c.Bindings
	} else {
		v, ok := res[0].(V)
		if !ok || !strings.HasPrefix(v.T, "(mkI ") {
			vc.unsupportedf("compose: result of %s has no syntactic dynamic type", vc.fn.Name())
			panic(abortPath{"compose"})
		}
		f := strings.Fields(v.T)
		tc := f[1]
		gt := vc.w.typeConsts[tc]
		if gt == nil {
			vc.unsupportedf("compose: unknown dynamic type %s", tc)
			panic(abortPath{"compose"})
		}
		sel := vc.eng.prog.MethodSets.MethodSet(gt).Lookup(vc.eng.pkg.Types, vc.compose)
		if sel == nil {
			vc.unsupportedf("compose: %s has no method %s", gt, vc.compose)
			panic(abortPath{"compose"})
		}
		target = vc.eng.prog.MethodValue(sel)
		so := vc.w.sortOf(gt)
		recv := vc.unboxTerm(so, app("pay", v.T))
		// (mkI T (bInt x)) -> x, so that the receiver keeps its syntactic identity
		if len(f) == 4 && strings.HasPrefix(f[2], "(b") && strings.HasSuffix(f[3], "))") {
			recv = strings.TrimSuffix(f[3], "))")
		}
		args = []any{V{recv, so, gt}}
	}
	nf := &Frame{fn: target, env: map[ssa.Value]any{}, cuts: map[*ssa.BasicBlock]*loopCut{}, block: target.Blocks[0]}
	ct := vc.contract
	base := len(vc.fn.Params)
	for i, p := range target.Params {
		var a any
		if i < len(args) {
			a = args[i]
		} else {
			key := fmt.Sprintf("%d", i)
			if vc.composeArgs == nil {
				vc.composeArgs = map[string]V{}
			}
			v, ok := vc.composeArgs[key]
			if !ok {
				v = V{vc.fresh("p2_"+p.Name(), vc.w.sortOf(p.Type())), vc.w.sortOf(p.Type()), p.Type()}
				vc.composeArgs[key] = v
			}
			st.assume(intRange(p.Type(), v.T))
			vc.assumeTypeWF(st, v, p.Type())
			a = v
			k := base + i - len(args)
			if ct != nil && k < len(ct.Params) && ct.Params[k] != "_" {
				vc.entryVars[ct.Params[k]] = v
			}
		}
		nf.env[p] = a
	}
	for i, fv := range target.FreeVars {
		if i < len(bindings) {
			nf.env[fv] = bindings[i]
		}
	}
	st.frames = []*Frame{nf}
	sc := vc.newScope(st, vc.baseVars(st))
	for _, c := range vc.deferredReq {
		g, ok := vc.safeBool(sc, c.E, "requires")
		if ok {
			st.assume(g)
		}
	}
	st.event("compose %s", relName(target))
}

func (e *Engine) funcNames() []string {
	if e.sortedNames == nil {
		for n := range e.funcs {
			e.sortedNames = append(e.sortedNames, n)
		}
		sort.Strings(e.sortedNames)
	}
	return e.sortedNames
}

// freeVarNames maps each captured variable of fn to its contract-local name: by (unique) type when the
// contract declares `freevars (name Type, ...)`, otherwise the source name.
func (e *Engine) freeVarNames(fn *ssa.Function, ct *Contract, w *World) []string {
	names := make([]string, len(fn.FreeVars))
	for i, fv := range fn.FreeVars {
		names[i] = fv.Name()
	}
	if ct == nil || len(ct.FreeVars) == 0 {
		return names
	}
	count := map[string]int{}
	for _, fv := range fn.FreeVars {
		count[w.typeStr(fv.Type())]++
	}
	for k, n := range ct.FreeVars {
		t := ""
		if k < len(ct.FreeVarTypes) {
			t = strings.ReplaceAll(ct.FreeVarTypes[k], " ", "")
		}
		for i, fv := range fn.FreeVars {
			ts := strings.ReplaceAll(w.typeStr(fv.Type()), " ", "")
			ts = strings.ReplaceAll(ts, "interface{}", "any")
			if t != "" && ts == strings.ReplaceAll(t, "interface{}", "any") && count[w.typeStr(fv.Type())] == 1 {
				names[i] = n
			}
		}
	}
	return names
}

func (e *Engine) freeVarIndex(fn *ssa.Function, ct *Contract, w *World, name string) int {
	for i, n := range e.freeVarNames(fn, ct, w) {
		if n == name {
			return i
		}
	}
	return -1
}

// lemmaRun: a lemma over contracts is a closed implication over its own typed variables.
func (vc *FuncVC) lemmaRun() {
	ct := vc.contract
	st := &State{vc: vc, heap: map[string]string{}, ghost: map[string]V{}, closures: map[string]*Closure{}, shadow: map[string]any{}, freshRefs: map[string]bool{}}
	st.heap0, st.ghost0 = map[string]string{}, map[string]V{}
	vc.entryVars = map[string]any{}
	defer func() {
		if r := recover(); r != nil {
			if se, ok := r.(specError); ok {
				vc.unsupportedf("contract error in %s: %s", vc.name, se.msg)
				return
			}
			panic(r)
		}
	}()
	for i, p := range ct.Params {
		so, gt := vc.ghostSort(ct.ParamTypes[i])
		v := V{st.fresh("l_"+p, so), so, gt}
		if gt != nil {
			st.assume(intRange(gt, v.T))
		}
		vc.entryVars[p] = v
	}
	sc := vc.newScope(st, vc.baseVars(st))
	for _, c := range ct.Requires {
		if g, ok := vc.safeBool(sc, c.E, "requires"); ok {
			st.assume(g)
		}
	}
	vc.addCover(st, "cover:entry")
	vc.returns = 1
	for _, c := range ct.Ensures {
		if !vc.inProp(c.Tags) {
			continue
		}
		g, _ := vc.safeBool(sc, c.E, "ensures")
		tag := ""
		if len(c.Tags) > 0 {
			tag = "[" + strings.Join(c.Tags, ",") + "]"
		}
		save := len(st.pc)
		vc.addOblig(st, "lemma", fmt.Sprintf("ensures#%d%s", c.Ord, tag), c.Tags, g)
		st.pc = st.pc[:save]
	}
}

// flowTableTypes: the map types of Flow.transitions (outer and inner), user-visible through Connect.
func (e *Engine) flowTableTypes() []*types.Map {
	if e.flowTypes != nil {
		return e.flowTypes
	}
	e.flowTypes = []*types.Map{}
	if obj := e.pkg.Types.Scope().Lookup("Flow"); obj != nil {
		if st, ok := obj.Type().Underlying().(*types.Struct); ok {
			for i := 0; i < st.NumFields(); i++ {
				if mt, ok := st.Field(i).Type().Underlying().(*types.Map); ok {
					e.flowTypes = append(e.flowTypes, mt)
					if inner, ok := mt.Elem().Underlying().(*types.Map); ok {
						e.flowTypes = append(e.flowTypes, inner)
					}
				}
			}
		}
	}
	return e.flowTypes
}
