package main

// Forward symbolic execution of go/ssa.

import (
	"fmt"
	"go/constant"
	"go/token"
	"go/types"
	"strings"

	"golang.org/x/tools/go/ssa"
)

type abortPath struct{ why string }

// isObjectStruct: struct types handled with a field-split heap (always used through pointers).
func isObjectStruct(t types.Type) bool {
	nt, ok := t.(*types.Named)
	if !ok {
		return false
	}
	st, ok := nt.Underlying().(*types.Struct)
	if !ok {
		return false
	}
	for i := 0; i < nt.NumMethods(); i++ {
		sig := nt.Method(i).Type().(*types.Signature)
		if _, ptr := sig.Recv().Type().(*types.Pointer); ptr {
			return true
		}
	}
	for i := 0; i < st.NumFields(); i++ {
		if isSyncType(st.Field(i).Type()) {
			return true
		}
	}
	return false
}

func isSyncType(t types.Type) bool {
	if nt, ok := t.(*types.Named); ok && nt.Obj().Pkg() != nil && nt.Obj().Pkg().Path() == "sync" {
		return true
	}
	return false
}

func (vc *FuncVC) val(st *State, fr *Frame, v ssa.Value) any {
	switch x := v.(type) {
	case *ssa.Const:
		return vc.constVal(x)
	case *ssa.Function:
		return vc.funcConst(st, x)
	case *ssa.Builtin:
		return x
	case *ssa.Global:
		// a package-level variable of another package (context.Canceled, io.EOF, ...): a cell holding an
		// unconstrained, stable value; error-typed globals are non-nil
		if x.Pkg != nil && x.Pkg.Pkg != vc.eng.pkg.Types {
			pt := x.Type().Underlying().(*types.Pointer).Elem()
			so := vc.w.sortOf(pt)
			if so != "Opaque" && so != "Tuple" {
				name := "glob_" + mangle(x.Pkg.Pkg.Path()+"_"+x.Name())
				vc.w.declare(name, fmt.Sprintf("(declare-const %s Int)\n(assert (< %s 0))\n(declare-const %s_val %s)", name, name, name, so))
				hn, hs := cellHeap(so)
				cur := st.heapGet(hn, hs)
				st.assume(eq(sel(cur, name), name+"_val"))
				if so == SIface && types.Implements(pt, errorIface()) {
					st.assume(not(eq(name+"_val", "nilI")))
				}
				vc.trusted["package-level variables of other packages hold stable values (never reassigned)"] = true
				return V{name, SInt, x.Type()}
			}
		}
		if x.Pkg != nil && x.Pkg.Pkg == vc.eng.pkg.Types {
			// a package-level variable of the package itself: shared mutable state outside every contract. Its
			// cell lies outside the frames (a write to it is no framework effect) and every read of it returns
			// an unconstrained value (other goroutines, earlier runs), so no proof can lean on its content.
			name := "gvar_" + mangle(x.Name())
			vc.w.declare(name, fmt.Sprintf("(declare-const %s Int)\n(assert (= %s (- %d)))", name, name, 1000+vc.eng.globalIndex(x.Name())))
			st.assume(not(sel(vc.heapInit("alive", aliveSort), name)))
			vc.trusted["package-level variables of the package are unconstrained on every read and outside all frames"] = true
			return V{name, SInt, x.Type()}
		}
		vc.unsupportedf("global variable %s", x.Name())
		panic(abortPath{"global"})
	}
	if r, ok := fr.env[v]; ok {
		return r
	}
	vc.unsupportedf("no value for %s in %s", v.Name(), fr.fn.Name())
	panic(abortPath{"novalue"})
}

func (vc *FuncVC) valV(st *State, fr *Frame, v ssa.Value) V {
	r := vc.val(st, fr, v)
	switch x := r.(type) {
	case V:
		return x
	case *Closure:
		return x.Ref
	}
	vc.unsupportedf("value %s (%T) used as first-class value in %s", v.Name(), r, fr.fn.Name())
	panic(abortPath{"notV"})
}

func (vc *FuncVC) funcConst(st *State, f *ssa.Function) any {
	key := "fn:" + f.String()
	if c, ok := st.closures[key]; ok {
		return c
	}
	// function constants are global, distinct, non-nil references
	name := "fn_" + mangle(f.String())
	vc.w.declare("fn:"+name, fmt.Sprintf("(declare-const %s Int)\n(assert (< %s 0))", name, name))
	c := &Closure{Fn: f, Ref: V{T: name, S: SInt, GT: f.Type()}}
	st.closures[key] = c
	st.closures[name] = c
	return c
}

func (vc *FuncVC) constVal(c *ssa.Const) V {
	w := vc.w
	so := w.sortOf(c.Type())
	if c.Value == nil {
		return V{w.zero(so), so, c.Type()}
	}
	switch c.Value.Kind() {
	case constant.Int:
		if so == SFloat {
			return V{w.floatLit(c.Value.ExactString()), so, c.Type()}
		}
		i, ok := constant.Int64Val(c.Value)
		if ok {
			return V{intLit(i), SInt, c.Type()}
		}
		s := c.Value.ExactString()
		if strings.HasPrefix(s, "-") {
			s = "(- " + s[1:] + ")"
		}
		return V{s, SInt, c.Type()}
	case constant.Bool:
		return V{fmt.Sprint(constant.BoolVal(c.Value)), SBool, c.Type()}
	case constant.String:
		return V{w.strConst(constant.StringVal(c.Value)), SStr, c.Type()}
	case constant.Float:
		f, _ := constant.Float64Val(c.Value)
		if f == 0 {
			return V{"flt_zero", SFloat, c.Type()}
		}
		return V{w.floatLit(c.Value.ExactString()), SFloat, c.Type()}
	}
	vc.unsupportedf("constant %v", c)
	panic(abortPath{"const"})
}

// ---------------------------------------------------------------- driver

// run executes the state until all its paths are finished (DFS).
func (vc *FuncVC) run(st *State) {
	defer func() {
		if r := recover(); r != nil {
			if _, ok := r.(abortPath); ok {
				return
			}
			panic(r)
		}
	}()
	for !st.dead {
		if vc.paths > vc.maxPaths {
			vc.aborted = "path budget exceeded"
			return
		}
		fr := st.top()
		if fr.idx >= len(fr.block.Instrs) {
			vc.unsupportedf("fell off block in %s", fr.fn.Name())
			return
		}
		instr := fr.block.Instrs[fr.idx]
		fr.idx++
		forks := vc.step(st, fr, instr)
		if forks != nil {
			for _, f := range forks {
				vc.run(f)
			}
			return
		}
	}
}

func (vc *FuncVC) nopanic(st *State, what string, instr ssa.Instruction, cond string) {
	if vc.contract != nil && vc.contract.MayPanic {
		st.assume(cond)
		return
	}
	vc.addOblig(st, "nopanic", "nopanic/"+what+vc.instrOrd(instr, what), vc.panicTags(), cond)
}

func (vc *FuncVC) panicTags() []string {
	if vc.contract != nil {
		return vc.contract.PanicTags
	}
	return nil
}

// instrOrd: ordinal of this instruction among same-kind instructions of its function.
func (vc *FuncVC) instrOrd(instr ssa.Instruction, what string) string {
	fn := instr.Parent()
	n := 0
	for _, b := range fn.Blocks {
		for _, in := range b.Instrs {
			if fmt.Sprintf("%T", in) == fmt.Sprintf("%T", instr) {
				n++
				if in == instr {
					pre := ""
					if fn != vc.fn {
						pre = "@" + relName(fn)
					}
					return fmt.Sprintf("#%d%s", n, pre)
				}
			}
		}
	}
	return "#?"
}

// gotoBlock transfers control inside the top frame. Returns false if the path ended (loop cut).
func (vc *FuncVC) gotoBlock(st *State, fr *Frame, to *ssa.BasicBlock) {
	from := fr.block
	li := vc.loopInfoFor(fr.fn)
	if lp := li.headers[to]; lp != nil {
		vc.enterLoopHeader(st, fr, from, to, lp)
		return
	}
	vc.enterBlock(st, fr, from, to)
}

func (vc *FuncVC) enterBlock(st *State, fr *Frame, from, to *ssa.BasicBlock) {
	// simultaneous phi assignment
	var phis []*ssa.Phi
	var vals []any
	for _, in := range to.Instrs {
		phi, ok := in.(*ssa.Phi)
		if !ok {
			break
		}
		for i, p := range to.Preds {
			if p == from {
				phis = append(phis, phi)
				vals = append(vals, vc.val(st, fr, phi.Edges[i]))
				break
			}
		}
	}
	for i, phi := range phis {
		fr.env[phi] = vals[i]
	}
	fr.pred = from
	fr.block = to
	fr.idx = len(phis)
	// skip any phi we did not match (no preds: entry)
	for fr.idx < len(to.Instrs) {
		if _, ok := to.Instrs[fr.idx].(*ssa.Phi); ok {
			fr.idx++
		} else {
			break
		}
	}
}

// step interprets one instruction; returns forked states (nil to continue with st).
func (vc *FuncVC) step(st *State, fr *Frame, instr ssa.Instruction) []*State {
	w := vc.w
	switch in := instr.(type) {
	case *ssa.DebugRef:
	case *ssa.Phi:
		// handled at block entry
	case *ssa.Jump:
		vc.gotoBlock(st, fr, fr.block.Succs[0])
	case *ssa.If:
		c := vc.valV(st, fr, in.Cond)
		s2 := st.clone()
		st.assume(c.T)
		s2.assume(not(c.T))
		b := fr.block
		vc.gotoBlock(st, st.top(), b.Succs[0])
		vc.gotoBlock(s2, s2.top(), b.Succs[1])
		vc.paths++
		return []*State{st, s2}
	case *ssa.Return:
		return vc.doReturn(st, fr, in)
	case *ssa.RunDefers:
		return vc.runDefers(st, fr)
	case *ssa.Panic:
		vc.doPanic(st, fr, in)
	case *ssa.Alloc:
		fr.env[in] = vc.doAlloc(st, in)
	case *ssa.FieldAddr:
		fr.env[in] = vc.fieldAddr(st, fr, in)
	case *ssa.Field:
		x := vc.valV(st, fr, in.X)
		si := w.structs[x.S]
		if si == nil {
			vc.unsupportedf("field of non-datatype struct %s", x.S)
			panic(abortPath{"field"})
		}
		fr.env[in] = V{app(w.structAcc(x.S, in.Field), x.T), si.Sorts[in.Field], si.Types[in.Field]}
	case *ssa.IndexAddr:
		fr.env[in] = vc.indexAddr(st, fr, in)
	case *ssa.UnOp:
		fr.env[in] = vc.unop(st, fr, in)
	case *ssa.BinOp:
		fr.env[in] = vc.binop(st, fr, in)
	case *ssa.Store:
		a := vc.addrOf(st, fr, in.Addr, in)
		raw := vc.val(st, fr, in.Val)
		v := vc.valV(st, fr, in.Val)
		vc.checkWrite(st, a, in)
		st.storeAny(a, raw, v)
	case *ssa.ChangeType:
		v := vc.val(st, fr, in.X)
		if vv, ok := v.(V); ok {
			vv.GT = in.Type()
			fr.env[in] = vv
		} else {
			fr.env[in] = v
		}
	case *ssa.ChangeInterface:
		v := vc.valV(st, fr, in.X)
		v.GT = in.Type()
		fr.env[in] = v
	case *ssa.Convert:
		fr.env[in] = vc.convert(st, fr, in)
	case *ssa.MakeInterface:
		x := vc.valV(st, fr, in.X)
		fr.env[in] = V{vc.mkIface(st, in.X.Type(), x), SIface, in.Type()}
	case *ssa.TypeAssert:
		fr.env[in] = vc.typeAssert(st, fr, in)
	case *ssa.Extract:
		t, ok := vc.val(st, fr, in.Tuple).(Tuple)
		if !ok {
			vc.unsupportedf("extract from non-tuple")
			panic(abortPath{"extract"})
		}
		fr.env[in] = t[in.Index]
	case *ssa.MakeClosure:
		fn := in.Fn.(*ssa.Function)
		ref := st.alloc("closure")
		ref.GT = in.Type()
		c := &Closure{Fn: fn, Ref: ref}
		for _, b := range in.Bindings {
			c.Bindings = append(c.Bindings, vc.val(st, fr, b))
		}
		st.closures[ref.T] = c
		vc.closureFacts(st, c)
		fr.env[in] = c
	case *ssa.MakeMap:
		mt := in.Type().Underlying().(*types.Map)
		ks, vs := w.sortOf(mt.Key()), w.sortOf(mt.Elem())
		ref := st.alloc("map")
		ref.GT = in.Type()
		dn, dso, vn, vso := mapHeaps(w, mt)
		st.heapSet(dn, dso, sto(st.heapGet(dn, dso), ref.T, w.zero(arraySort(ks, SBool))))
		st.heapSet(vn, vso, sto(st.heapGet(vn, vso), ref.T, w.zero(arraySort(ks, vs))))
		vc.declCard(ks)
		st.assume(eq(app("card_"+sortName(ks), w.zero(arraySort(ks, SBool))), "0"))
		fr.env[in] = ref
	case *ssa.MakeSlice:
		et := in.Type().Underlying().(*types.Slice).Elem()
		es := w.sortOf(et)
		ln := vc.valV(st, fr, in.Len)
		cp := vc.valV(st, fr, in.Cap)
		vc.nopanic(st, "makeslice", in, and(app("<=", "0", ln.T), app("<=", ln.T, cp.T)))
		arr := st.alloc("arr")
		hn, hs := elemsHeap(es)
		st.heapSet(hn, hs, sto(st.heapGet(hn, hs), arr.T, w.zero(arraySort(SInt, es))))
		fr.env[in] = V{app("mkSlice", arr.T, "0", ln.T, cp.T), SSlice, in.Type()}
	case *ssa.MakeChan:
		ref := st.alloc("chan")
		ref.GT = in.Type()
		sz := vc.valV(st, fr, in.Size)
		vc.nopanic(st, "makechan", in, app("<=", "0", sz.T))
		vc.chanInit(st, ref, sz)
		fr.env[in] = ref
	case *ssa.Slice:
		fr.env[in] = vc.sliceOp(st, fr, in)
	case *ssa.Lookup:
		fr.env[in] = vc.lookup(st, fr, in)
	case *ssa.MapUpdate:
		vc.mapUpdate(st, fr, in)
	case *ssa.Range:
		fr.env[in] = vc.rangeInit(st, fr, in)
	case *ssa.Next:
		return vc.rangeNext(st, fr, in)
	case *ssa.Call:
		return vc.doCall(st, fr, in, in.Common(), "call")
	case *ssa.Go:
		return vc.doCall(st, fr, in, in.Common(), "go")
	case *ssa.Defer:
		d := deferred{instr: in}
		cc := in.Common()
		if !cc.IsInvoke() {
			d.fn = vc.val(st, fr, cc.Value)
		} else {
			d.fn = vc.val(st, fr, cc.Value)
		}
		for _, a := range cc.Args {
			d.args = append(d.args, vc.val(st, fr, a))
		}
		li := vc.loopInfoFor(fr.fn)
		if li.inLoop[fr.block] != nil {
			vc.unsupportedf("defer inside a loop in %s", fr.fn.Name())
			panic(abortPath{"defer-in-loop"})
		}
		fr.defers = append(fr.defers, d)
	case *ssa.Select:
		return vc.doSelect(st, fr, in)
	case *ssa.Send:
		vc.doSend(st, fr, in)
	default:
		vc.unsupportedf("instruction %T in %s", instr, fr.fn.Name())
		panic(abortPath{"instr"})
	}
	return nil
}

func (vc *FuncVC) declCard(ks string) {
	n := "card_" + sortName(ks)
	vc.w.declare(n, fmt.Sprintf("(declare-fun %s (%s) Int)", n, arraySort(ks, SBool)))
}

// ---------------------------------------------------------------- memory

func (vc *FuncVC) doAlloc(st *State, in *ssa.Alloc) any {
	w := vc.w
	pt := in.Type().Underlying().(*types.Pointer).Elem()
	ref := st.alloc("new")
	ref.GT = in.Type()
	switch u := pt.Underlying().(type) {
	case *types.Array:
		es := w.sortOf(u.Elem())
		hn, hs := elemsHeap(es)
		st.heapSet(hn, hs, sto(st.heapGet(hn, hs), ref.T, w.zero(arraySort(SInt, es))))
		return ref
	case *types.Struct:
		if isObjectStruct(pt) {
			nt := pt.(*types.Named)
			for i := 0; i < u.NumFields(); i++ {
				f := u.Field(i)
				if isSyncType(f.Type()) {
					vc.syncInit(st, fieldHeapName(nt, f), ref)
					continue
				}
				fs := w.sortOf(f.Type())
				hn := fieldHeapName(nt, f)
				hs := arraySort(SInt, fs)
				st.heapSet(hn, hs, sto(st.heapGet(hn, hs), ref.T, w.zero(fs)))
			}
			return ref
		}
	}
	if isSyncType(pt) {
		vc.syncInit(st, "Cell_sync", ref)
		return ref
	}
	so := w.sortOf(pt)
	if so == "Opaque" || so == "Tuple" {
		vc.unsupportedf("alloc of %s", pt)
		panic(abortPath{"alloc"})
	}
	hn, hs := cellHeap(so)
	st.heapSet(hn, hs, sto(st.heapGet(hn, hs), ref.T, w.zero(so)))
	return ref
}

// ptrAddr converts a pointer value (V ref) to an address of its pointee.
func (vc *FuncVC) ptrAddr(st *State, p V, ptrT types.Type) *Addr {
	w := vc.w
	pt := ptrT.Underlying().(*types.Pointer).Elem()
	if isSyncType(pt) {
		return &Addr{Heap: "Cell_sync", Ref: p, ElemT: pt, Sync: true}
	}
	if _, ok := pt.Underlying().(*types.Array); ok {
		vc.unsupportedf("whole-array access through pointer")
		panic(abortPath{"arrayptr"})
	}
	if isObjectStruct(pt) {
		vc.unsupportedf("whole-struct access of object struct %s", pt)
		panic(abortPath{"objstruct"})
	}
	so := w.sortOf(pt)
	hn, hs := cellHeap(so)
	return &Addr{Heap: hn, HSort: hs, ValSort: so, Ref: p, ElemT: pt}
}

func (vc *FuncVC) addrOf(st *State, fr *Frame, v ssa.Value, at ssa.Instruction) *Addr {
	r := vc.val(st, fr, v)
	switch x := r.(type) {
	case *Addr:
		return x
	case V:
		vc.nopanic(st, "nil-deref", at, not(eq(x.T, "0")))
		return vc.ptrAddr(st, x, v.Type())
	}
	vc.unsupportedf("address from %T", r)
	panic(abortPath{"addr"})
}

func (vc *FuncVC) fieldAddr(st *State, fr *Frame, in *ssa.FieldAddr) any {
	w := vc.w
	base := vc.val(st, fr, in.X)
	pt := in.X.Type().Underlying().(*types.Pointer).Elem()
	stt := pt.Underlying().(*types.Struct)
	f := stt.Field(in.Field)
	switch x := base.(type) {
	case *Addr:
		// field of a struct value stored somewhere
		na := *x
		na.Path = append(append([]int(nil), x.Path...), in.Field)
		na.ElemT = f.Type()
		return &na
	case V:
		vc.nopanic(st, "nil-deref", in, not(eq(x.T, "0")))
		if isObjectStruct(pt) {
			nt := pt.(*types.Named)
			hn := fieldHeapName(nt, f)
			if isSyncType(f.Type()) {
				return &Addr{Heap: hn, Ref: x, ElemT: f.Type(), Sync: true}
			}
			fs := w.sortOf(f.Type())
			return &Addr{Heap: hn, HSort: arraySort(SInt, fs), ValSort: fs, Ref: x, ElemT: f.Type()}
		}
		so := w.sortOf(pt)
		hn, hs := cellHeap(so)
		return &Addr{Heap: hn, HSort: hs, ValSort: so, Ref: x, Path: []int{in.Field}, ElemT: f.Type()}
	}
	vc.unsupportedf("fieldaddr base %T", base)
	panic(abortPath{"fieldaddr"})
}

func (vc *FuncVC) indexAddr(st *State, fr *Frame, in *ssa.IndexAddr) any {
	w := vc.w
	idx := vc.valV(st, fr, in.Index)
	switch u := in.X.Type().Underlying().(type) {
	case *types.Slice:
		s := vc.valV(st, fr, in.X)
		vc.nopanic(st, "index", in, and(app("<=", "0", idx.T), app("<", idx.T, app("slen", s.T))))
		es := w.sortOf(u.Elem())
		hn, hs := elemsHeap(es)
		i := V{app("+", app("soff", s.T), idx.T), SInt, nil}
		return &Addr{Heap: hn, HSort: hs, ValSort: es, Ref: V{app("sarr", s.T), SInt, nil}, Idx: &i, ElemT: u.Elem()}
	case *types.Pointer:
		at := u.Elem().Underlying().(*types.Array)
		p := vc.valV(st, fr, in.X)
		vc.nopanic(st, "nil-deref", in, not(eq(p.T, "0")))
		vc.nopanic(st, "index", in, and(app("<=", "0", idx.T), app("<", idx.T, fmt.Sprint(at.Len()))))
		es := w.sortOf(at.Elem())
		hn, hs := elemsHeap(es)
		return &Addr{Heap: hn, HSort: hs, ValSort: es, Ref: p, Idx: &idx, ElemT: at.Elem()}
	}
	vc.unsupportedf("indexaddr on %s", in.X.Type())
	panic(abortPath{"indexaddr"})
}

func (vc *FuncVC) sliceOp(st *State, fr *Frame, in *ssa.Slice) any {
	w := vc.w
	switch u := in.X.Type().Underlying().(type) {
	case *types.Pointer:
		at := u.Elem().Underlying().(*types.Array)
		p := vc.valV(st, fr, in.X)
		if in.Low != nil || in.High != nil || in.Max != nil {
			vc.unsupportedf("partial slice of array")
			panic(abortPath{"slice"})
		}
		n := fmt.Sprint(at.Len())
		return V{app("mkSlice", p.T, "0", n, n), SSlice, in.Type()}
	case *types.Slice:
		s := vc.valV(st, fr, in.X)
		lo, hi, mx := "0", app("slen", s.T), app("scap", s.T)
		if in.Low != nil {
			lo = vc.valV(st, fr, in.Low).T
		}
		if in.High != nil {
			hi = vc.valV(st, fr, in.High).T
		}
		if in.Max != nil {
			mx = vc.valV(st, fr, in.Max).T
		}
		vc.nopanic(st, "slice-bounds", in, and(app("<=", "0", lo), app("<=", lo, hi), app("<=", hi, mx), app("<=", mx, app("scap", s.T))))
		_ = w
		return V{app("mkSlice", app("sarr", s.T), app("+", app("soff", s.T), lo), app("-", hi, lo), app("-", mx, lo)), SSlice, in.Type()}
	}
	vc.unsupportedf("slice of %s", in.X.Type())
	panic(abortPath{"slice"})
}

// ---------------------------------------------------------------- operators

func (vc *FuncVC) unop(st *State, fr *Frame, in *ssa.UnOp) any {
	switch in.Op {
	case token.MUL:
		a := vc.addrOf(st, fr, in.X, in)
		if a.Sync {
			vc.unsupportedf("copy of sync object")
			panic(abortPath{"sync-copy"})
		}
		vc.checkRead(st, a, in)
		if x, ok := st.loadAny(a); ok {
			if _, isClosure := x.(*Closure); isClosure {
				return x
			}
		}
		v := st.load(a)
		v.GT = in.Type()
		if v.S == SSlice {
			st.assume(vc.sliceWF(v.T)) // every slice value in memory is well formed
		}
		if v.S == SInt {
			switch in.Type().Underlying().(type) {
			case *types.Pointer, *types.Map, *types.Chan, *types.Signature:
				st.assumeAlive2(v.T)
			default:
				st.assume(intRange(in.Type(), v.T))
			}
		}
		return v
	case token.NOT:
		x := vc.valV(st, fr, in.X)
		return V{not(x.T), SBool, in.Type()}
	case token.SUB:
		x := vc.valV(st, fr, in.X)
		if x.S == SInt {
			return vc.wrapInt(st, in.Type(), app("-", x.T))
		}
		vc.w.declare("fneg", "(declare-fun fneg (Float) Float)")
		return V{app("fneg", x.T), SFloat, in.Type()}
	case token.ARROW:
		vc.unsupportedf("channel receive outside select in %s", fr.fn.Name())
		panic(abortPath{"recv"})
	}
	vc.unsupportedf("unop %s", in.Op)
	panic(abortPath{"unop"})
}

// assumeAlive2: references loaded from the heap are allocated, nil, or function constants (<0).
func (s *State) assumeAlive2(r string) {
	alive := s.heapGet("alive", aliveSort)
	s.assume(or(app("<=", r, "0"), sel(alive, r)))
}

func (vc *FuncVC) wrapInt(st *State, t types.Type, term string) V {
	rng := intRange(t, term)
	if rng == "true" {
		return V{term, SInt, t}
	}
	// exact when in range, otherwise an unspecified in-range value (wrap-around not modelled exactly)
	r := st.fresh("arith", SInt)
	st.assume(intRange(t, r))
	st.assume(implies(rng, eq(r, term)))
	return V{r, SInt, t}
}

func (vc *FuncVC) binop(st *State, fr *Frame, in *ssa.BinOp) any {
	x := vc.valV(st, fr, in.X)
	y := vc.valV(st, fr, in.Y)
	w := vc.w
	switch in.Op {
	case token.EQL, token.NEQ:
		var e string
		if x.S == SIface && !isNilConst(in.X) && !isNilConst(in.Y) {
			e = vc.ifaceEq(st, in, x, y)
		} else if x.S == SFloat {
			w.declare("feq", "(declare-fun feq (Float Float) Bool)")
			e = app("feq", x.T, y.T)
		} else {
			e = eq(x.T, y.T)
		}
		if in.Op == token.NEQ {
			e = not(e)
		}
		return V{e, SBool, in.Type()}
	case token.LSS, token.LEQ, token.GTR, token.GEQ:
		op := map[token.Token]string{token.LSS: "<", token.LEQ: "<=", token.GTR: ">", token.GEQ: ">="}[in.Op]
		if x.S == SInt {
			return V{app(op, x.T, y.T), SBool, in.Type()}
		}
		name := "cmp_" + sortName(x.S) + "_" + in.Op.String()
		name = mangle(name)
		w.declare(name, fmt.Sprintf("(declare-fun %s (%s %s) Bool)", name, x.S, y.S))
		return V{app(name, x.T, y.T), SBool, in.Type()}
	case token.ADD, token.SUB, token.MUL:
		if x.S == SInt {
			op := map[token.Token]string{token.ADD: "+", token.SUB: "-", token.MUL: "*"}[in.Op]
			return vc.wrapInt(st, in.Type(), app(op, x.T, y.T))
		}
		name := mangle("op_" + sortName(x.S) + "_" + in.Op.String())
		w.declare(name, fmt.Sprintf("(declare-fun %s (%s %s) %s)", name, x.S, y.S, x.S))
		return V{app(name, x.T, y.T), x.S, in.Type()}
	case token.QUO, token.REM:
		if x.S == SInt {
			vc.nopanic(st, "div-zero", in, not(eq(y.T, "0")))
			// Go truncates toward zero; SMT div floors: under-specify for negatives
			r := st.fresh("quo", SInt)
			op := "div"
			if in.Op == token.REM {
				op = "mod"
			}
			st.assume(implies(and(app(">=", x.T, "0"), app(">", y.T, "0")), eq(r, app(op, x.T, y.T))))
			st.assume(intRange(in.Type(), r))
			return V{r, SInt, in.Type()}
		}
	case token.LAND, token.LOR:
	}
	if x.S == SBool {
		switch in.Op {
		case token.AND:
			return V{and(x.T, y.T), SBool, in.Type()}
		case token.OR:
			return V{or(x.T, y.T), SBool, in.Type()}
		}
	}
	// bit operations etc.: unspecified result
	name := mangle("op_" + sortName(x.S) + "_" + in.Op.String())
	w.declare(name, fmt.Sprintf("(declare-fun %s (%s %s) %s)", name, x.S, y.S, x.S))
	r := V{app(name, x.T, y.T), x.S, in.Type()}
	if r.S == SInt {
		st.assume(intRange(in.Type(), r.T))
	}
	return r
}

func isNilConst(v ssa.Value) bool {
	c, ok := v.(*ssa.Const)
	return ok && c.Value == nil
}

// ifaceEq models == on two interface values (Go spec: panics if the dynamic
// types are identical and not comparable).
func (vc *FuncVC) ifaceEq(st *State, in ssa.Instruction, x, y V) string {
	_ = vc.w
	bothNonNil := and(not(eq(x.T, "nilI")), not(eq(y.T, "nilI")))
	sameT := eq(app("typ", x.T), app("typ", y.T))
	vc.nopanic(st, "iface-eq", in, not(and(bothNonNil, sameT, not(app("comparableT", app("typ", x.T))))))
	e := st.fresh("ifeq", SBool)
	// nil cases
	st.assume(implies(eq(x.T, "nilI"), eq(e, eq(y.T, "nilI"))))
	st.assume(implies(eq(y.T, "nilI"), eq(e, eq(x.T, "nilI"))))
	// different dynamic types are unequal
	st.assume(implies(and(bothNonNil, not(sameT)), not(e)))
	// types whose == is structural equality of the payload (no floats inside)
	st.assume(implies(and(bothNonNil, sameT, app("exactEqT", app("typ", x.T))), eq(e, eq(x.T, y.T))))
	// nothing else is known: NaN != NaN, +0 == -0
	return e
}

func (vc *FuncVC) convert(st *State, fr *Frame, in *ssa.Convert) any {
	x := vc.valV(st, fr, in.X)
	return vc.convValue(st, x, in.X.Type(), in.Type())
}

func basicName(t types.Type) string {
	if b, ok := t.Underlying().(*types.Basic); ok {
		return b.Name()
	}
	return mangle(t.String())
}

// convValue: numeric conversion as an uninterpreted function per (from,to) basic
// kind pair, which is the identity on integers that fit the target.
func (vc *FuncVC) convValue(st *State, x V, from, to types.Type) V {
	w := vc.w
	fs, ts := w.sortOf(from), w.sortOf(to)
	if fs == ts && (fs == SInt) {
		fb, tb := basicName(from), basicName(to)
		if fb == tb || intSubrange(from, to) {
			return V{x.T, ts, to} // value-preserving conversion
		}
		name := "conv_" + fb + "_" + tb
		w.declare(name, fmt.Sprintf("(declare-fun %s (Int) Int)", name))
		r := app(name, x.T)
		if st != nil && !strings.Contains(x.T, "q_") {
			st.assume(intRange(to, r))
			st.assume(implies(intRange(to, x.T), eq(r, x.T)))
		}
		return V{r, SInt, to}
	}
	if (fs == SInt || fs == SFloat) && (ts == SInt || ts == SFloat) {
		fb, tb := basicName(from), basicName(to)
		if fb == tb {
			return V{x.T, ts, to}
		}
		name := "conv_" + fb + "_" + tb
		w.declare(name, fmt.Sprintf("(declare-fun %s (%s) %s)", name, fs, ts))
		r := app(name, x.T)
		if ts == SInt && st != nil && !strings.Contains(x.T, "q_") {
			st.assume(intRange(to, r))
		}
		return V{r, ts, to}
	}
	if fs == SStr && ts == SStr {
		return V{x.T, ts, to}
	}
	name := mangle("conv_" + sortName(fs) + "_" + sortName(ts) + "_" + basicName(to))
	w.declare(name, fmt.Sprintf("(declare-fun %s (%s) %s)", name, fs, ts))
	return V{app(name, x.T), ts, to}
}

// ---------------------------------------------------------------- interfaces

func (vc *FuncVC) boxTerm(so string, term string) string {
	w := vc.w
	switch so {
	case SInt, SBool, SStr, SFloat, SSlice:
		return app(boxCtor(so), term)
	case SIface:
		return app("bIface", term)
	}
	if si, ok := w.structs[so]; ok && len(si.Fields) > 0 && w.structBoxable(so) {
		return app(boxCtor(so), term)
	}
	// empty structs and anything else: opaque payload
	return "(bOpaque 0)"
}

func (vc *FuncVC) unboxTerm(so string, box string) string {
	w := vc.w
	switch so {
	case SInt, SBool, SStr, SFloat, SSlice:
		return app(unboxSel(so), box)
	}
	if si, ok := w.structs[so]; ok && len(si.Fields) > 0 && w.structBoxable(so) {
		return app(unboxSel(so), box)
	}
	return w.zero(so)
}

func (vc *FuncVC) mkIface(st *State, t types.Type, x V) string {
	if types.IsInterface(t) {
		return x.T
	}
	return app("mkI", vc.w.typeConst(t), vc.boxTerm(x.S, x.T))
}

func (vc *FuncVC) ifaceNameOf(t types.Type) string {
	name := vc.w.typeStr(t)
	return vc.w.ifaceConst(name, t.Underlying().(*types.Interface))
}

func (vc *FuncVC) typeAssert(st *State, fr *Frame, in *ssa.TypeAssert) any {
	w := vc.w
	x := vc.valV(st, fr, in.X)
	var ok string
	var val V
	if types.IsInterface(in.AssertedType) {
		it := in.AssertedType.Underlying().(*types.Interface)
		if it.NumMethods() == 0 {
			ok = not(eq(x.T, "nilI"))
		} else {
			ok = and(not(eq(x.T, "nilI")), app("implements", app("typ", x.T), vc.ifaceNameOf(in.AssertedType)))
		}
		val = V{ite(ok, x.T, "nilI"), SIface, in.AssertedType}
	} else {
		tc := w.typeConst(in.AssertedType)
		ok = and(not(eq(x.T, "nilI")), eq(app("typ", x.T), tc))
		so := w.sortOf(in.AssertedType)
		u := vc.unboxTerm(so, app("pay", x.T))
		val = V{ite(ok, u, w.zero(so)), so, in.AssertedType}
		if bt := vc.boxTerm(so, u); bt != "(bOpaque 0)" && u != w.zero(so) {
			// a value of dynamic type T carries a T payload: re-boxing what was extracted gives the value back
			st.assume(implies(ok, eq(app("pay", x.T), bt)))
		}
		if so == SInt {
			// well-typedness of interface payloads coming from the environment
			switch in.AssertedType.Underlying().(type) {
			case *types.Pointer, *types.Map, *types.Chan, *types.Signature:
				st.assume(implies(ok, or(app("<=", u, "0"), sel(st.heapGet("alive", aliveSort), u))))
				if _, isPtr := in.AssertedType.Underlying().(*types.Pointer); isPtr {
					// typed nil pointers are possible: no non-nil assumption
				}
			default:
				st.assume(implies(ok, intRange(in.AssertedType, u)))
			}
		}
		if so == SSlice {
			st.assume(implies(ok, vc.sliceWF(u)))
			st.assume(implies(ok, or(eq(app("sarr", u), "0"), sel(st.heapGet("alive", aliveSort), app("sarr", u)))))
		}
	}
	if in.CommaOk {
		return Tuple{val, V{ok, SBool, types.Typ[types.Bool]}}
	}
	vc.nopanic(st, "type-assert", in, ok)
	return val
}

// sliceWF: well-formedness of a slice value from the environment.
func (vc *FuncVC) sliceWF(s string) string {
	return and(app("<=", "0", app("soff", s)), app("<=", "0", app("slen", s)), app("<=", app("slen", s), app("scap", s)), app("<=", app("+", app("soff", s), app("scap", s)), "9223372036854775807"),
		app(">=", app("sarr", s), "0"), implies(eq(app("sarr", s), "0"), eq(app("scap", s), "0")))
}

// ---------------------------------------------------------------- maps

func (vc *FuncVC) mapSorts(t types.Type) (ks, vs string, mt *types.Map) {
	mt = t.Underlying().(*types.Map)
	return vc.w.sortOf(mt.Key()), vc.w.sortOf(mt.Elem()), mt
}

func (vc *FuncVC) lookup(st *State, fr *Frame, in *ssa.Lookup) any {
	w := vc.w
	if _, isMap := in.X.Type().Underlying().(*types.Map); !isMap {
		vc.unsupportedf("string index")
		panic(abortPath{"lookup"})
	}
	m := vc.valV(st, fr, in.X)
	k := vc.valV(st, fr, in.Index)
	ks, vs, mt := vc.mapSorts(in.X.Type())
	dn, dso, vn, vso := mapHeaps(w, mt)
	vc.checkMapRead(st, fr, in.X, m, in)
	if ks == SIface {
		vc.nopanic(st, "map-key-hashable", in, or(eq(k.T, "nilI"), app("comparableT", app("typ", k.T))))
	}
	has := and(not(eq(m.T, "0")), sel(sel(st.heapGet(dn, dso), m.T), k.T))
	val := ite(has, sel(sel(st.heapGet(vn, vso), m.T), k.T), w.zero(vs))
	vv := V{val, vs, mt.Elem()}
	if vs == SInt {
		switch mt.Elem().Underlying().(type) {
		case *types.Pointer, *types.Map, *types.Chan, *types.Signature:
			st.assumeAlive2(val)
		}
	}
	if in.CommaOk {
		return Tuple{vv, V{has, SBool, types.Typ[types.Bool]}}
	}
	return vv
}

func (vc *FuncVC) mapUpdate(st *State, fr *Frame, in *ssa.MapUpdate) {
	m := vc.valV(st, fr, in.Map)
	k := vc.valV(st, fr, in.Key)
	v := vc.valV(st, fr, in.Value)
	ks, _, mt := vc.mapSorts(in.Map.Type())
	vc.nopanic(st, "nil-map-write", in, not(eq(m.T, "0")))
	if ks == SIface {
		vc.nopanic(st, "map-key-hashable", in, or(eq(k.T, "nilI"), app("comparableT", app("typ", k.T))))
	}
	vc.checkMapWrite(st, fr, in.Map, m, in)
	vc.mapStore(st, m, k, v, mt)
}

func (vc *FuncVC) mapStore(st *State, m, k, v V, mt *types.Map) {
	ks := vc.w.sortOf(mt.Key())
	dn, dso, vn, vso := mapHeaps(vc.w, mt)
	dom := st.heapGet(dn, dso)
	val := st.heapGet(vn, vso)
	od := sel(dom, m.T)
	nd := sto(od, k.T, "true")
	vc.declCard(ks)
	c := "card_" + sortName(ks)
	st.heapSet(dn, dso, sto(dom, m.T, nd))
	st.heapSet(vn, vso, sto(val, m.T, sto(sel(val, m.T), k.T, v.T)))
	st.assume(eq(app(c, nd), app("+", app(c, od), ite(sel(od, k.T), "0", "1"))))
	st.assume(app(">=", app(c, od), "0"))
}

func (vc *FuncVC) mapDelete(st *State, m, k V, mt *types.Map) {
	ks := vc.w.sortOf(mt.Key())
	dn, dso, _, _ := mapHeaps(vc.w, mt)
	dom := st.heapGet(dn, dso)
	od := sel(dom, m.T)
	nd := sto(od, k.T, "false")
	vc.declCard(ks)
	c := "card_" + sortName(ks)
	// delete on a nil map is a no-op
	st.heapSet(dn, dso, ite(eq(m.T, "0"), dom, sto(dom, m.T, nd)))
	st.assume(eq(app(c, nd), app("-", app(c, od), ite(sel(od, k.T), "1", "0"))))
	st.assume(app(">=", app(c, od), "0"))
}

func (vc *FuncVC) rangeInit(st *State, fr *Frame, in *ssa.Range) any {
	if _, isMap := in.X.Type().Underlying().(*types.Map); !isMap {
		vc.unsupportedf("range over string")
		panic(abortPath{"range"})
	}
	m := vc.valV(st, fr, in.X)
	ks, vs, mt := vc.mapSorts(in.X.Type())
	vc.checkMapRead(st, fr, in.X, m, in)
	dn, dso, _, _ := mapHeaps(vc.w, mt)
	_ = vs
	dom0 := ite(eq(m.T, "0"), vc.w.zero(arraySort(ks, SBool)), sel(st.heapGet(dn, dso), m.T))
	d0 := st.fresh("rangedom", arraySort(ks, SBool))
	st.assume(eq(d0, dom0))
	name := fmt.Sprintf("visited%s", vc.instrOrd(in, "range"))
	st.ghost[name] = V{vc.w.zero(arraySort(ks, SBool)), arraySort(ks, SBool), nil}
	st.ghost[name+".dom"] = V{d0, arraySort(ks, SBool), nil}
	vc.trusted["T6 range-over-map visits each key present at loop start exactly once"] = true
	return &RangeIter{Map: m, KS: ks, VS: vs, MT: mt, Visited: name, Dom0: d0}
}

func (vc *FuncVC) rangeNext(st *State, fr *Frame, in *ssa.Next) []*State {
	it, ok := vc.val(st, fr, in.Iter).(*RangeIter)
	if !ok {
		vc.unsupportedf("next on non-map iterator")
		panic(abortPath{"next"})
	}
	w := vc.w
	visited := st.ghost[it.Visited]
	dom0 := st.ghost[it.Visited+".dom"].T
	// side condition of T6: the map's domain has not been written since the loop started
	dn, dso, vn, vso := mapHeaps(w, it.MT)
	curDom := ite(eq(it.Map.T, "0"), w.zero(arraySort(it.KS, SBool)), sel(st.heapGet(dn, dso), it.Map.T))
	vc.addOblig(st, "range", "range/map-not-resized"+vc.instrOrd(in, "next"), nil, eq(curDom, dom0))
	// done branch
	done := st.clone()
	done.assume(eq(visited.T, dom0))
	dfr := done.top()
	dfr.env[in] = Tuple{V{"false", SBool, nil}, V{w.zero(it.KS), it.KS, it.MT.Key()}, V{w.zero(it.VS), it.VS, it.MT.Elem()}}
	// step branch
	k := st.fresh("rk", it.KS)
	st.assume(sel(dom0, k))
	st.assume(not(sel(visited.T, k)))
	nv := st.fresh("visited", visited.S)
	st.assume(eq(nv, sto(visited.T, k, "true")))
	vc.declCard(it.KS)
	cf := "card_" + sortName(it.KS)
	st.assume(eq(app(cf, nv), app("+", app(cf, visited.T), "1")))
	st.assume(app(">=", app(cf, visited.T), "0"))
	st.assume(eq(app(cf, w.zero(visited.S)), "0"))
	st.ghost[it.Visited] = V{nv, visited.S, nil}
	val := sel(sel(st.heapGet(vn, vso), it.Map.T), k)
	fr.env[in] = Tuple{V{"true", SBool, nil}, V{k, it.KS, it.MT.Key()}, V{val, it.VS, it.MT.Elem()}}
	st.event("range-next %s", k)
	vc.paths++
	return []*State{st, done}
}

// ---------------------------------------------------------------- return / panic

func (vc *FuncVC) doPanic(st *State, fr *Frame, in *ssa.Panic) {
	if vc.contract != nil && vc.contract.MayPanic && len(st.frames) == 1 {
		vc.checkPanicAllowed(st, fr, in)
		st.dead = true
		return
	}
	vc.addUnreachable(st, "nopanic", "nopanic/explicit-panic"+vc.instrOrd(in, "panic"), vc.panicTags())
	st.dead = true
}

func (vc *FuncVC) doReturn(st *State, fr *Frame, in *ssa.Return) []*State {
	var res []any
	for _, r := range in.Results {
		res = append(res, vc.val(st, fr, r))
	}
	if len(st.frames) > 1 {
		// inlined callee returns to its caller
		st.frames = st.frames[:len(st.frames)-1]
		caller := st.top()
		if fr.retTo != nil {
			switch len(res) {
			case 0:
			case 1:
				caller.env[fr.retTo] = res[0]
			default:
				caller.env[fr.retTo] = Tuple(res)
			}
		}
		if fr.isDefer {
			// returning from a deferred call: continue running defers
			return vc.continueDefers(st, caller)
		}
		return nil
	}
	if vc.compose != "" && !st.composed {
		vc.composeStep(st, res)
		return nil
	}
	vc.finish(st, fr, res)
	st.dead = true
	return nil
}

// closureFacts: SMT-level identity of a closure: which function it runs and what it captured.
func (vc *FuncVC) closureFacts(st *State, c *Closure) {
	w := vc.w
	w.declare("closureFn", "(declare-fun closureFn (Int) Int)")
	st.assume(eq(app("closureFn", c.Ref.T), fmt.Sprint(vc.fnID(c.Fn))))
	for i, b := range c.Bindings {
		var v V
		switch x := b.(type) {
		case V:
			v = x
		case *Closure:
			v = x.Ref
		default:
			continue
		}
		name := fmt.Sprintf("closureBind%d_%s", i, sortName(v.S))
		w.declare(name, fmt.Sprintf("(declare-fun %s (Int) %s)", name, v.S))
		st.assume(eq(app(name, c.Ref.T), v.T))
	}
}

func (vc *FuncVC) fnID(f *ssa.Function) int {
	// stable id: index in the sorted list of package functions
	names := vc.eng.funcNames()
	for i, n := range names {
		if n == relName(f) {
			return i + 1
		}
	}
	return 0
}

// intSubrange: every value of integer type a is a value of integer type b.
func intSubrange(a, b types.Type) bool {
	ba, ok1 := a.Underlying().(*types.Basic)
	bb, ok2 := b.Underlying().(*types.Basic)
	if !ok1 || !ok2 {
		return false
	}
	bits := func(k types.BasicKind) (int, bool) { // width, signed
		switch k {
		case types.Int8:
			return 8, true
		case types.Int16:
			return 16, true
		case types.Int32:
			return 32, true
		case types.Int, types.Int64:
			return 64, true
		case types.Uint8:
			return 8, false
		case types.Uint16:
			return 16, false
		case types.Uint32:
			return 32, false
		case types.Uint, types.Uint64, types.Uintptr:
			return 64, false
		}
		return 0, false
	}
	wa, sa := bits(ba.Kind())
	wb, sb := bits(bb.Kind())
	if wa == 0 || wb == 0 {
		return false
	}
	switch {
	case sa == sb:
		return wa <= wb
	case !sa && sb:
		return wa < wb
	}
	return false
}

func errorIface() *types.Interface {
	return types.Universe.Lookup("error").Type().Underlying().(*types.Interface)
}
