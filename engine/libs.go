package main

// Builtins, sync primitives (T1, T2), channels (T3), lock discipline.

import (
	"fmt"
	"go/types"
	"strings"

	"golang.org/x/tools/go/ssa"
)

// ---------------------------------------------------------------- builtins

func (vc *FuncVC) doBuiltin(st *State, fr *Frame, instr ssa.Instruction, cc *ssa.CallCommon, b *ssa.Builtin, site string) []*State {
	w := vc.w
	args := vc.evalArgs(st, fr, cc)
	set := func(v any) { vc.setResult(fr, instr, []any{v}) }
	switch b.Name() {
	case "len":
		x := args[0].(V)
		switch u := cc.Args[0].Type().Underlying().(type) {
		case *types.Slice:
			set(V{app("slen", x.T), SInt, types.Typ[types.Int]})
		case *types.Map:
			ks := w.sortOf(u.Key())
			dn, dso, _, _ := mapHeaps(w, u)
			vc.checkMapRead(st, fr, cc.Args[0], x, instr)
			vc.declCard(ks)
			d := ite(eq(x.T, "0"), w.zero(arraySort(ks, SBool)), sel(st.heapGet(dn, dso), x.T))
			c := app("card_"+sortName(ks), d)
			st.assume(app(">=", c, "0"))
			st.assume(eq(app("card_"+sortName(ks), w.zero(arraySort(ks, SBool))), "0"))
			set(V{c, SInt, types.Typ[types.Int]})
		case *types.Basic:
			w.declare("strlen", "(declare-fun strlen (Str) Int)")
			st.assume(app(">=", app("strlen", x.T), "0"))
			st.assume(eq(eq(app("strlen", x.T), "0"), eq(x.T, "str_empty"))) // only the empty string has length 0
			set(V{app("strlen", x.T), SInt, types.Typ[types.Int]})
		case *types.Chan:
			set(st.freshV("chanlen", types.Typ[types.Int]))
		default:
			vc.unsupportedf("len of %s", cc.Args[0].Type())
			panic(abortPath{"len"})
		}
	case "cap":
		x := args[0].(V)
		if x.S == SSlice {
			set(V{app("scap", x.T), SInt, types.Typ[types.Int]})
		} else {
			set(st.freshV("cap", types.Typ[types.Int]))
		}
	case "append":
		return vc.doAppend(st, fr, instr, cc, args)
	case "delete":
		m, k := args[0].(V), args[1].(V)
		_, _, mt := vc.mapSorts(cc.Args[0].Type())
		vc.checkMapWrite(st, fr, cc.Args[0], m, instr)
		vc.mapDelete(st, m, k, mt)
	case "close":
		ch := args[0].(V)
		vc.chanClose(st, fr, instr, cc.Args[0], ch, site)
	case "copy":
		dstT, ok1 := cc.Args[0].Type().Underlying().(*types.Slice)
		_, ok2 := cc.Args[1].Type().Underlying().(*types.Slice)
		if !ok1 || !ok2 {
			vc.unsupportedf("builtin copy from a string")
			panic(abortPath{"copy"})
		}
		dst, src := args[0].(V), args[1].(V)
		es := w.sortOf(dstT.Elem())
		hn, hs := elemsHeap(es)
		cur := st.heapGet(hn, hs)
		n := ite(app("<=", app("slen", dst.T), app("slen", src.T)), app("slen", dst.T), app("slen", src.T))
		na := st.fresh("copyarr", arraySort(SInt, es))
		oldDst, oldSrc := sel(cur, app("sarr", dst.T)), sel(cur, app("sarr", src.T))
		st.assume(fmt.Sprintf("(forall ((j Int)) (! (= (select %s j) (ite (and (<= (soff %s) j) (< j (+ (soff %s) %s))) (select %s (+ (soff %s) (- j (soff %s)))) (select %s j))) :pattern ((select %s j))))",
			na, dst.T, dst.T, n, oldSrc, src.T, dst.T, oldDst, na))
		st.heapSet(hn, hs, ite(eq(n, "0"), cur, sto(cur, app("sarr", dst.T), na)))
		set(V{n, SInt, types.Typ[types.Int]})
	case "min", "max":
		// integers only (floating point min/max have NaN cases; strings are not modelled)
		acc, ok := args[0].(V)
		if !ok || acc.S != SInt {
			vc.unsupportedf("builtin %s on %s", b.Name(), cc.Args[0].Type())
			panic(abortPath{"builtin"})
		}
		op := "<="
		if b.Name() == "max" {
			op = ">="
		}
		t := acc.T
		for _, a := range args[1:] {
			t = ite(app(op, t, a.(V).T), t, a.(V).T)
		}
		set(V{t, SInt, cc.Args[0].Type()})
	case "clear":
		mt, isMap := cc.Args[0].Type().Underlying().(*types.Map)
		if !isMap {
			vc.unsupportedf("builtin clear on %s", cc.Args[0].Type())
			panic(abortPath{"builtin"})
		}
		m := args[0].(V)
		vc.checkMapWrite(st, fr, cc.Args[0], m, instr)
		ks := w.sortOf(mt.Key())
		dn, dso, _, _ := mapHeaps(w, mt)
		dom := st.heapGet(dn, dso)
		vc.declCard(ks)
		empty := w.zero(arraySort(ks, SBool))
		st.heapSet(dn, dso, ite(eq(m.T, "0"), dom, sto(dom, m.T, empty)))
		st.assume(eq(app("card_"+sortName(ks), empty), "0"))
	case "print", "println":
	case "recover":
		// panics of user callbacks are not modelled, so what a function does after catching one cannot be
		// verified: a recover() makes the function unverifiable instead of being read as "returns nil"
		vc.unsupportedf("recover(): the paths on which a panic is caught are not modelled")
		panic(abortPath{"recover"})
	default:
		vc.unsupportedf("builtin %s", b.Name())
		panic(abortPath{"builtin"})
	}
	return nil
}

// doAppend models append(s, elems...) where elems has a statically known length
// (the varargs array the compiler builds), or a nil/unknown slice (havoc).
func (vc *FuncVC) doAppend(st *State, fr *Frame, instr ssa.Instruction, cc *ssa.CallCommon, args []any) []*State {
	w := vc.w
	s := args[0].(V)
	t := args[1].(V)
	et := cc.Args[0].Type().Underlying().(*types.Slice).Elem()
	es := w.sortOf(et)
	hn, hs := elemsHeap(es)
	elems, known := vc.sliceElems(st, t, es)
	if !known {
		// unknown addend: result is an unspecified well-formed slice extending s
		r := st.freshV("append", cc.Args[0].Type())
		vc.assumeTypeWF(st, r, cc.Args[0].Type())
		st.assume(eq(app("slen", r.T), app("+", app("slen", s.T), app("slen", t.T))))
		st.heapHavoc(hn, hs)
		vc.setResult(fr, instr, []any{r})
		return nil
	}
	k := len(elems)
	newLen := app("+", app("slen", s.T), fmt.Sprint(k))
	// path 1: in place
	s2 := st.clone()
	fr2 := s2.top()
	{
		st.assume(app("<=", newLen, app("scap", s.T)))
		st.assume(not(eq(app("sarr", s.T), "0")))
		cur := st.heapGet(hn, hs)
		inner := sel(cur, app("sarr", s.T))
		for j, e := range elems {
			inner = sto(inner, app("+", app("soff", s.T), app("slen", s.T), fmt.Sprint(j)), e)
		}
		st.heapSet(hn, hs, sto(cur, app("sarr", s.T), inner))
		r := V{app("mkSlice", app("sarr", s.T), app("soff", s.T), newLen, app("scap", s.T)), SSlice, cc.Args[0].Type()}
		vc.setResult(fr, instr, []any{r})
	}
	// path 2: reallocation
	{
		s2.assume(app(">", newLen, app("scap", s.T)))
		arr := s2.alloc("arr")
		cur := s2.heapGet(hn, hs)
		old := sel(cur, app("sarr", s.T))
		na := s2.fresh("newarr", arraySort(SInt, es))
		s2.assume(fmt.Sprintf("(forall ((j Int)) (! (=> (and (<= 0 j) (< j (slen %s))) (= (select %s j) (select %s (+ (soff %s) j)))) :pattern ((select %s j))))", s.T, na, old, s.T, na))
		for j, e := range elems {
			s2.assume(eq(sel(na, app("+", app("slen", s.T), fmt.Sprint(j))), e))
		}
		s2.heapSet(hn, hs, sto(cur, arr.T, na))
		ncap := s2.fresh("newcap", SInt)
		s2.assume(app(">=", ncap, newLen))
		r := V{app("mkSlice", arr.T, "0", newLen, ncap), SSlice, cc.Args[0].Type()}
		vc.setResult(fr2, instr, []any{r})
	}
	vc.paths++
	// monitor rule on append (ghost mirrors of accumulated slices)
	for _, p := range []*State{st, s2} {
		{
			tn := callTargetName(cc)
			if r := vc.findRule("call", tn, "builtin.append"); r != nil {
				res := p.top().env[instr.(ssa.Value)]
				vc.ruleRequires(p, r, "builtin.append", args)
				vc.ruleEffects(p, r, "builtin.append", args, []any{res})
			}
		}
	}
	return []*State{st, s2}
}

// ---------------------------------------------------------------- sync (T1, T2)

func zeroIntArr() string { return "((as const (Array Int Int)) 0)" }

func (vc *FuncVC) syncArr(st *State, kind string, a *Addr) string {
	key := kind + "@" + a.Heap
	if _, ok := st.heap[key]; !ok {
		st.heap[key] = zeroIntArr()
		vc.heapSorts[key] = arraySort(SInt, SInt)
	}
	return key
}

func (vc *FuncVC) syncInit(st *State, heap string, ref V) {}

func (vc *FuncVC) syncCall(st *State, fr *Frame, instr ssa.Instruction, callee *ssa.Function, args []any, site string) ([]any, bool) {
	name := callee.String()
	a, ok := args[0].(*Addr)
	if !ok {
		if v, isV := args[0].(V); isV {
			a = &Addr{Heap: "Cell_sync", Ref: v, Sync: true}
		} else {
			return nil, false
		}
	}
	rule := vc.findRule("call", name)
	if rule != nil {
		vc.ruleRequires(st, rule, site, args)
	}
	defer func() {
		if rule != nil {
			vc.ruleEffects(st, rule, site, args, nil)
		}
	}()
	get := func(key string) string { return sel(st.heap[key], a.Ref.T) }
	set := func(key, v string) {
		st.heapSet(key, arraySort(SInt, SInt), sto(st.heap[key], a.Ref.T, v))
	}
	lockName := "lock/" + strings.TrimPrefix(strings.TrimPrefix(name, "(*sync."), "")
	lockName = strings.ReplaceAll(lockName, ")", "")
	switch name {
	case "(*sync.RWMutex).RLock", "(*sync.RWMutex).Lock", "(*sync.Mutex).Lock":
		vc.trusted["T1 sync.Mutex/RWMutex: mutual exclusion; unlock happens-before the next lock"] = true
		key := vc.syncArr(st, "held", a)
		vc.addOblig(st, "lock", lockName+vc.instrOrd(instr, "lock")+"/not-already-held", vc.lockTags(), eq(get(key), "0"))
		mode := "2"
		if strings.HasSuffix(name, "RLock") {
			mode = "1"
		}
		set(key, mode)
		st.ghost["sections"] = V{app("+", st.ghost["sections"].T, "1"), SInt, nil}
		st.event("%s", name)
		return nil, true
	case "(*sync.RWMutex).RUnlock":
		key := vc.syncArr(st, "held", a)
		vc.addOblig(st, "lock", lockName+vc.instrOrd(instr, "lock")+"/held-R", vc.lockTags(), eq(get(key), "1"))
		set(key, "0")
		st.event("%s", name)
		return nil, true
	case "(*sync.RWMutex).Unlock", "(*sync.Mutex).Unlock":
		key := vc.syncArr(st, "held", a)
		vc.addOblig(st, "lock", lockName+vc.instrOrd(instr, "lock")+"/held-W", vc.lockTags(), eq(get(key), "2"))
		set(key, "0")
		st.event("%s", name)
		return nil, true
	case "(*sync.WaitGroup).Add":
		vc.trusted["T2 sync.WaitGroup: counter = Adds - Dones; Wait returns only at zero; every Done happens-before that return"] = true
		key := vc.syncArr(st, "wg", a)
		n := args[1].(V)
		set(key, app("+", get(key), n.T))
		st.event("wg.Add")
		return nil, true
	case "(*sync.WaitGroup).Done":
		key := vc.syncArr(st, "wg", a)
		set(key, app("-", get(key), "1"))
		st.event("wg.Done")
		return nil, true
	case "(*sync.WaitGroup).Wait":
		vc.trusted["T2 sync.WaitGroup: counter = Adds - Dones; Wait returns only at zero; every Done happens-before that return"] = true
		key := vc.syncArr(st, "wgwait", a)
		set(key, app("+", get(key), "1"))
		st.event("wg.Wait")
		return nil, true
	}
	return nil, false
}

func (sc *Scope) lockState(e Expr) V {
	// held(x.mu): lock state of the sync object at field mu of x
	f, ok := e.(EField)
	if !ok {
		// held(mu) for a pointer to a sync object held in a variable (e.g. a captured *sync.Mutex)
		b := sc.eval(e)
		if _, isPtr := b.GT.Underlying().(*types.Pointer); !isPtr {
			specFail("held() expects x.field or a pointer to a mutex")
		}
		key := "held@Cell_sync"
		arr := zeroIntArr()
		if sc.heap == nil {
			if t, ok := sc.st.heap[key]; ok {
				arr = t
			}
		} else if t, ok := sc.heap[key]; ok {
			arr = t
		}
		return V{sel(arr, b.T), SInt, nil}
	}
	b := sc.eval(f.X)
	pt, ok := b.GT.Underlying().(*types.Pointer)
	if !ok {
		specFail("held(): not a pointer")
	}
	nt := pt.Elem().(*types.Named)
	stt := nt.Underlying().(*types.Struct)
	for i := 0; i < stt.NumFields(); i++ {
		if stt.Field(i).Name() == f.F {
			key := "held@" + fieldHeapName(nt, stt.Field(i))
			arr := zeroIntArr()
			if sc.heap == nil {
				if t, ok := sc.st.heap[key]; ok {
					arr = t
				}
			} else if t, ok := sc.heap[key]; ok {
				arr = t
			}
			return V{sel(arr, b.T), SInt, nil}
		}
	}
	specFail("held(): no field %s", f.F)
	return V{}
}

// ---------------------------------------------------------------- lock discipline (guarded fields)

func (vc *FuncVC) guardOf(heap string) *Guarded {
	for i := range vc.eng.spec.Guarded {
		g := &vc.eng.spec.Guarded[i]
		if heap == "H_"+g.Struct+"_"+g.Field {
			return g
		}
	}
	return nil
}

func (vc *FuncVC) heldTerm(st *State, g *Guarded, ref string) string {
	key := "held@H_" + g.Struct + "_" + g.Lock
	arr, ok := st.heap[key]
	if !ok {
		arr = zeroIntArr()
	}
	return sel(arr, ref)
}

// cellGuard: the address is a captured variable declared `guarded-cell x by mu` in the contract.
func (vc *FuncVC) cellGuard(st *State, a *Addr) (string, bool) {
	if vc.contract == nil || len(st.frames) == 0 || a.Idx != nil {
		return "", false
	}
	for _, gc := range vc.contract.GuardedCells {
		cell, ok1 := vc.entryVars[gc[0]].(V)
		mu, ok2 := vc.entryVars[gc[1]].(V)
		if ok1 && ok2 && cell.T == a.Ref.T {
			arr, ok := st.heap["held@Cell_sync"]
			if !ok {
				arr = zeroIntArr()
			}
			return sel(arr, mu.T), true
		}
	}
	return "", false
}

func (vc *FuncVC) checkRead(st *State, a *Addr, instr ssa.Instruction) {
	if h, ok := vc.cellGuard(st, a); ok {
		vc.addOblig(st, "lock", "lock/read-of-guarded-cell"+vc.instrOrd(instr, "load")+"/under-lock", vc.lockTags(), app(">=", h, "1"))
		return
	}
	if st.freshRefs[a.Ref.T] {
		return // object created by this activation: not shared yet
	}
	if g := vc.guardOf(a.Heap); g != nil {
		vc.addOblig(st, "lock", "lock/read-of-"+g.Field+vc.instrOrd(instr, "load")+"/under-lock", vc.lockTags(), app(">=", vc.heldTerm(st, g, a.Ref.T), "1"))
	}
}

func (vc *FuncVC) checkWrite(st *State, a *Addr, instr ssa.Instruction) {
	if h, ok := vc.cellGuard(st, a); ok {
		vc.addOblig(st, "lock", "lock/write-of-guarded-cell"+vc.instrOrd(instr, "store")+"/under-lock", vc.lockTags(), app(">=", h, "1"))
		return
	}
	if st.freshRefs[a.Ref.T] {
		return
	}
	if g := vc.guardOf(a.Heap); g != nil {
		vc.addOblig(st, "lock", "lock/write-of-"+g.Field+vc.instrOrd(instr, "store")+"/under-write-lock", vc.lockTags(), eq(vc.heldTerm(st, g, a.Ref.T), "2"))
	}
}

// guardedOrigin: the SSA value is a load of a guarded field: returns the guard and the owner object.
func (vc *FuncVC) guardedOrigin(st *State, fr *Frame, v ssa.Value) (*Guarded, string) {
	u, ok := v.(*ssa.UnOp)
	if !ok {
		return nil, ""
	}
	fa, ok := u.X.(*ssa.FieldAddr)
	if !ok {
		return nil, ""
	}
	pt := fa.X.Type().Underlying().(*types.Pointer).Elem()
	nt, ok := pt.(*types.Named)
	if !ok {
		return nil, ""
	}
	f := nt.Underlying().(*types.Struct).Field(fa.Field)
	g := vc.guardOf(fieldHeapName(nt, f))
	if g == nil {
		return nil, ""
	}
	owner, ok := fr.env[fa.X].(V)
	if !ok {
		return nil, ""
	}
	return g, owner.T
}

func (vc *FuncVC) checkMapRead(st *State, fr *Frame, mv ssa.Value, m V, instr ssa.Instruction) {
	if g, owner := vc.guardedOrigin(st, fr, mv); g != nil {
		vc.addOblig(st, "lock", "lock/map-read-of-"+g.Field+vc.instrOrd(instr, "mapread")+"/under-lock", vc.lockTags(), app(">=", vc.heldTerm(st, g, owner), "1"))
	}
}

func (vc *FuncVC) checkMapWrite(st *State, fr *Frame, mv ssa.Value, m V, instr ssa.Instruction) {
	if g, owner := vc.guardedOrigin(st, fr, mv); g != nil {
		vc.addOblig(st, "lock", "lock/map-write-of-"+g.Field+vc.instrOrd(instr, "mapwrite")+"/under-write-lock", vc.lockTags(), eq(vc.heldTerm(st, g, owner), "2"))
	}
}

// ---------------------------------------------------------------- channels (T3)

func (vc *FuncVC) chanInit(st *State, ref V, size V) {
	key := vc.chanArr(st, "chancap")
	st.heapSet(key, arraySort(SInt, SInt), sto(st.heap[key], ref.T, size.T))
	ck := vc.chanArr(st, "closed")
	st.heapSet(ck, arraySort(SInt, SInt), sto(st.heap[ck], ref.T, "0"))
}

func (vc *FuncVC) chanArr(st *State, kind string) string {
	key := kind + "@chan"
	if kind == "closed" || kind == "chancap" {
		st.heapGet(key, arraySort(SInt, SInt)) // symbolic at entry: channels of other objects may be closed already
		return key
	}
	if _, ok := st.heap[key]; !ok {
		st.heap[key] = zeroIntArr()
		vc.heapSorts[key] = arraySort(SInt, SInt)
	}
	return key
}

func (vc *FuncVC) havocChans(st *State) {}

func (vc *FuncVC) doSend(st *State, fr *Frame, in *ssa.Send) {
	vc.trusted["T3 channels: a sent value is received exactly once or stays buffered; send on a full channel blocks"] = true
	ch := vc.valV(st, fr, in.Chan)
	x := vc.val(st, fr, in.X)
	desc := describeValue(in.Chan)
	key := vc.chanArr(st, "closed")
	vc.nopanic(st, "send-on-closed", in, eq(sel(st.heap[key], ch.T), "0"))
	if r := vc.findRule("send", desc); r != nil {
		vc.ruleRequires(st, r, "send:"+desc, []any{x})
		vc.ruleEffects(st, r, "send:"+desc, []any{x}, nil)
	} else {
		vc.addUnreachable(st, "unexpected-send", "unexpected-send:"+desc, nil)
	}
	st.event("send %s", desc)
}

func (vc *FuncVC) chanClose(st *State, fr *Frame, instr ssa.Instruction, chv ssa.Value, ch V, site string) {
	key := vc.chanArr(st, "closed")
	vc.nopanic(st, "close-of-nil-chan", instr, not(eq(ch.T, "0")))
	vc.nopanic(st, "close-of-closed-chan", instr, eq(sel(st.heap[key], ch.T), "0"))
	st.heapSet(key, arraySort(SInt, SInt), sto(st.heap[key], ch.T, "1"))
	desc := describeValue(chv)
	if r := vc.findRule("close", desc); r != nil {
		vc.ruleRequires(st, r, "close:"+desc, nil)
		vc.ruleEffects(st, r, "close:"+desc, nil, nil)
	}
	st.event("close %s", desc)
}

func (vc *FuncVC) chanSelectFacts(st *State, fr *Frame, in *ssa.Select, idx string, tup Tuple) {
	// received function values are unknown functions; nothing further is assumed
}

// ---------------------------------------------------------------- reflect / json (T10)

func (vc *FuncVC) reflectCall(st *State, fr *Frame, instr ssa.Instruction, callee *ssa.Function, args []any, site string) ([]any, bool) {
	return vc.reflectModel(st, fr, instr, callee, args, site)
}

func (vc *FuncVC) checkPanicAllowed(st *State, fr *Frame, in *ssa.Panic) {
	// may-panic functions: the panic condition is constrained by `ensures` via the ghost `panicked`
	if _, ok := st.ghost["panicked"]; ok {
		st.ghost["panicked"] = V{"true", SBool, nil}
		vc.finish(st, fr, nil)
	}
}
