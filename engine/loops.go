package main

// Loop cutting: invariants, havoc sets, automatically inferred glue equalities.

import (
	"go/token"
	"fmt"
	"go/types"
	"sort"
	"strings"

	"golang.org/x/tools/go/ssa"
)

type loop struct {
	header *ssa.BasicBlock
	blocks map[*ssa.BasicBlock]bool
	ord    int
}

type loopInfo struct {
	headers map[*ssa.BasicBlock]*loop
	inLoop  map[*ssa.BasicBlock]*loop
	order   []*loop
}

type glueCand struct {
	Phi  *ssa.Phi
	Sel  string // "" or "slen": projection applied to the phi value
	Off  int
	G    string // ghost name
	Name string
	Down bool // descending counter: phi == entry(phi) - ghost + Off, entry(phi) = the phi's value when the path reached the loop
	// guard candidates (rotated loops, e.g. range over an integer): "phi Rel Bound", read off the branch
	// conditions that guard the edges into the header; Bound is defined outside the loop
	Rel   string
	Bound ssa.Value
}

func (vc *FuncVC) loopInfoFor(fn *ssa.Function) *loopInfo {
	if li, ok := vc.loopInfos[fn]; ok {
		return li
	}
	li := &loopInfo{headers: map[*ssa.BasicBlock]*loop{}, inLoop: map[*ssa.BasicBlock]*loop{}}
	for _, b := range fn.Blocks {
		for _, s := range b.Succs {
			if s.Dominates(b) {
				lp := li.headers[s]
				if lp == nil {
					lp = &loop{header: s, blocks: map[*ssa.BasicBlock]bool{s: true}}
					li.headers[s] = lp
				}
				// natural loop: nodes reaching b without passing s
				var stack []*ssa.BasicBlock
				if !lp.blocks[b] {
					lp.blocks[b] = true
					stack = append(stack, b)
				}
				for len(stack) > 0 {
					x := stack[len(stack)-1]
					stack = stack[:len(stack)-1]
					for _, p := range x.Preds {
						if !lp.blocks[p] {
							lp.blocks[p] = true
							stack = append(stack, p)
						}
					}
				}
			}
		}
	}
	for _, b := range fn.Blocks {
		if lp := li.headers[b]; lp != nil {
			li.order = append(li.order, lp)
			lp.ord = len(li.order)
		}
	}
	// innermost loop per block
	for _, lp := range li.order {
		for b := range lp.blocks {
			if cur := li.inLoop[b]; cur == nil || len(lp.blocks) < len(cur.blocks) {
				li.inLoop[b] = lp
			}
		}
	}
	vc.loopInfos[fn] = li
	return li
}

func (vc *FuncVC) loopKey(fn *ssa.Function, lp *loop) string {
	return fmt.Sprintf("%s/loop%d", relName(fn), lp.ord)
}

func definedOutside(v ssa.Value, lp *loop) bool {
	switch x := v.(type) {
	case *ssa.Const, *ssa.Parameter, *ssa.FreeVar, *ssa.Function, *ssa.Global, *ssa.Builtin:
		return true
	case ssa.Instruction:
		return !lp.blocks[x.Block()]
	}
	return false
}

// enterLoopHeader implements the cut.
func (vc *FuncVC) enterLoopHeader(st *State, fr *Frame, from, to *ssa.BasicBlock, lp *loop) {
	isTop := len(st.frames) == 1
	var spec *LoopSpec
	if isTop && vc.contract != nil {
		spec = vc.contract.Loops[lp.ord]
	}
	key := vc.loopKey(fr.fn, lp)
	lname := fmt.Sprintf("loop%d", lp.ord)
	if !isTop {
		lname += "@" + relName(fr.fn)
	}
	cut := fr.cuts[to]
	if lp.blocks[from] && cut != nil {
		// ---- back edge: check preservation, end the path
		vc.enterBlock(st, fr, from, to) // phis now hold the next-iteration values
		sc := vc.newScope(st, vc.baseVars(st))
		if spec != nil {
			vc.safeExec(sc, spec.Steps, lname+"/step")
			for _, c := range spec.Inv {
				if !vc.inProp(c.Tags) {
					continue
				}
				g, _ := vc.safeBool(sc, c.E, lname+"/invariant")
				vc.addOblig(st, "inv-preserved", fmt.Sprintf("%s/inv-preserved#%d", lname, c.Ord), c.Tags, g)
			}
		}
		for _, gc := range cut.glue {
			vc.addOblig(st, "glue-preserved", lname+"/glue-preserved:"+gc.Name, nil, vc.glueTerm(st, fr, gc, cut.entryPhi))
		}
		if spec != nil {
			for _, c := range spec.Cand {
				if vc.candDropped[key+"|"+fmt.Sprint(c.Ord)] || !vc.inProp(c.Tags) {
					continue
				}
				g, ok := vc.tryBool(sc, c.E)
				if ok {
					vc.addOblig(st, "glue-preserved", fmt.Sprintf("%s/glue-preserved:candidate#%d", lname, c.Ord), nil, g)
				}
			}
		}
		if spec != nil {
			for i, c := range spec.Decr {
				if !vc.inProp(c.Tags) || i >= len(cut.decr0) {
					continue
				}
				d, ok := vc.safeInt(sc, c.E, lname+"/decreases")
				if ok && cut.decr0[i] != "" {
					vc.addOblig(st, "decreases", fmt.Sprintf("%s/decreases#%d", lname, c.Ord), c.Tags, and(app("<", d, cut.decr0[i]), app(">=", cut.decr0[i], "0")))
				}
			}
		}
		// lock neutrality
		for k, v := range cut.heldAt {
			cur := st.heap[k]
			if cur != v {
				vc.addOblig(st, "lock", lname+"/lock-neutral:"+k, vc.lockTags(), eq(cur, v))
			}
		}
		if st.ghost["sections"].T != cut.sections {
			vc.addOblig(st, "lock", lname+"/lock-neutral:sections", []string{"C13"}, eq(st.ghost["sections"].T, cut.sections))
		}
		st.event("back-edge %s", lname)
		vc.addCover(st, lname+"/cover:back")
		st.dead = true
		return
	}
	// ---- entry
	vc.enterBlock(st, fr, from, to)
	sc := vc.newScope(st, vc.baseVars(st))
	if spec != nil {
		vc.safeExec(sc, spec.Init, lname+"/init")
		for _, c := range spec.Inv {
			if !vc.inProp(c.Tags) {
				continue
			}
			g, _ := vc.safeBool(sc, c.E, lname+"/invariant")
			vc.addOblig(st, "inv-entry", fmt.Sprintf("%s/inv-entry#%d", lname, c.Ord), c.Tags, g)
		}
	}
	// glue candidates
	var phis []*ssa.Phi
	for _, in := range to.Instrs {
		if phi, ok := in.(*ssa.Phi); ok {
			phis = append(phis, phi)
		} else {
			break
		}
	}
	entryPhi := map[*ssa.Phi]string{}
	for _, phi := range phis {
		if v, ok := fr.env[phi].(V); ok {
			entryPhi[phi] = v.T
		}
	}
	wr := vc.loopWrites(st, fr, lp)
	if isTop && spec != nil {
		for _, c := range spec.Cand {
			if vc.candDropped[key+"|"+fmt.Sprint(c.Ord)] || !vc.inProp(c.Tags) {
				continue
			}
			g, ok := vc.tryBool(sc, c.E)
			if ok {
				vc.addOblig(st, "glue-entry", fmt.Sprintf("%s/glue-entry:candidate#%d", lname, c.Ord), nil, g)
			}
		}
	}
	if isTop {
		if !vc.glueInit[key] {
			vc.glueInit[key] = true
			vc.glue[key] = vc.glueCandidates(st, fr, phis, wr)
		}
		for _, gc := range vc.glue[key] {
			vc.addOblig(st, "glue-entry", lname+"/glue-entry:"+gc.Name, nil, vc.glueTerm(st, fr, gc, entryPhi))
		}
	}
	// havoc
	for _, phi := range phis {
		cur, ok := fr.env[phi].(V)
		if !ok {
			if c, isC := fr.env[phi].(*Closure); isC {
				cur = c.Ref
			} else {
				vc.unsupportedf("loop-carried value %s is not first-class", phi.Name())
				panic(abortPath{"phi"})
			}
		}
		nv := st.freshV("phi_"+phi.Comment, phi.Type())
		nv.S = cur.S
		vc.assumeTypeWF(st, nv, phi.Type())
		fr.env[phi] = nv
	}
	vc.applyLoopHavoc(st, fr, lp, wr)
	newCut := &loopCut{heldAt: map[string]string{}, entryPhi: entryPhi}
	for k, v := range st.heap {
		if strings.HasPrefix(k, "held@") {
			newCut.heldAt[k] = v
		}
	}
	newCut.sections = st.ghost["sections"].T
	// assume invariants and glue
	sc = vc.newScope(st, vc.baseVars(st))
	if spec != nil {
		for _, c := range spec.Inv {
			if !vc.inProp(c.Tags) {
				continue
			}
			g, ok := vc.safeBool(sc, c.E, lname+"/invariant")
			if ok {
				st.assume(g)
			}
		}
		for _, c := range spec.Decr {
			d := ""
			if vc.inProp(c.Tags) {
				if t, ok := vc.safeInt(sc, c.E, lname+"/decreases"); ok {
					d = t
				}
			}
			newCut.decr0 = append(newCut.decr0, d)
		}
	}
	if isTop {
		newCut.glue = vc.glue[key]
		for _, gc := range newCut.glue {
			st.assume(vc.glueTerm(st, fr, gc, entryPhi))
		}
		if spec != nil {
			for _, c := range spec.Cand {
				if vc.candDropped[key+"|"+fmt.Sprint(c.Ord)] || !vc.inProp(c.Tags) {
					continue
				}
				if g, ok := vc.tryBool(sc, c.E); ok {
					st.assume(g)
				}
			}
		}
	}
	fr.cuts[to] = newCut
	st.event("loop-cut %s", lname)
	if isTop {
		vc.addCover(st, lname+"/cover:head")
	}
}

func (vc *FuncVC) lockTags() []string { return vc.eng.lockTags }

func (vc *FuncVC) safeInt(sc *Scope, e Expr, what string) (res string, ok bool) {
	defer func() {
		if r := recover(); r != nil {
			if se, is := r.(specError); is {
				vc.unsupportedf("contract error in %s: %s", what, se.msg)
				res, ok = "0", false
				return
			}
			panic(r)
		}
	}()
	v := sc.eval(e)
	return v.T, true
}

// ------------------------------------------------------------------ glue

func (vc *FuncVC) glueTerm(st *State, fr *Frame, gc glueCand, entry map[*ssa.Phi]string) string {
	pv, ok := fr.env[gc.Phi].(V)
	if !ok {
		if c, isC := fr.env[gc.Phi].(*Closure); isC {
			pv = c.Ref
		} else {
			return "true"
		}
	}
	t := pv.T
	if gc.Rel != "" {
		bv, ok := vc.val(st, fr, gc.Bound).(V)
		if !ok || bv.S != SInt {
			return "true"
		}
		if gc.Rel == "!=" {
			return not(eq(t, bv.T))
		}
		return app(gc.Rel, t, bv.T)
	}
	if gc.Sel != "" {
		t = app(gc.Sel, t)
	}
	if gc.Off > 0 {
		t = app("+", t, fmt.Sprint(gc.Off))
	} else if gc.Off < 0 {
		t = app("-", t, fmt.Sprint(-gc.Off))
	}
	g, ok := st.ghost[gc.G]
	if !ok {
		return "true"
	}
	if gc.Down {
		e, ok := entry[gc.Phi]
		if !ok {
			return "true"
		}
		return eq(t, app("-", e, g.T))
	}
	return eq(t, g.T)
}

// glueCandidates: equalities between loop-carried SSA values and ghost
// variables that the loop can change (Houdini-style candidate set).
func (vc *FuncVC) glueCandidates(st *State, fr *Frame, phis []*ssa.Phi, wr *loopWriteSet) []glueCand {
	var out []glueCand
	var gnames []string
	for g := range wr.ghosts {
		gnames = append(gnames, g)
	}
	sort.Strings(gnames)
	for _, phi := range phis {
		pv, ok := fr.env[phi].(V)
		if !ok {
			continue
		}
		for _, g := range gnames {
			gv, ok := st.ghost[g]
			if !ok {
				continue
			}
			label := phi.Comment
			if label == "" {
				label = "idx"
			}
			if pv.S == gv.S {
				if pv.S == SInt {
					if _, isInt := phi.Type().Underlying().(*types.Basic); isInt {
						for _, off := range []int{0, 1, -1} {
							out = append(out, glueCand{Phi: phi, Off: off, G: g, Name: fmt.Sprintf("%s%+d==%s", phiKey(phi), off, g)})
						}
						// descending counters: phi == entry(phi) - ghost (+/-1)
						for _, off := range []int{0, 1, -1} {
							out = append(out, glueCand{Phi: phi, Off: off, G: g, Down: true, Name: fmt.Sprintf("%s%+d==entry-%s", phiKey(phi), off, g)})
						}
						continue
					}
				}
				out = append(out, glueCand{Phi: phi, G: g, Name: fmt.Sprintf("%s==%s", phiKey(phi), g)})
			} else if pv.S == SSlice && gv.S == SInt {
				out = append(out, glueCand{Phi: phi, Sel: "slen", G: g, Name: fmt.Sprintf("len(%s)==%s", phiKey(phi), g)})
			}
		}
	}
	out = append(out, guardCandidates(phis)...)
	return out
}

// guardCandidates: for every edge into the loop header that is taken under a comparison between the
// phi's incoming value and a value defined outside the loop, the same comparison with the phi itself.
func guardCandidates(phis []*ssa.Phi) []glueCand {
	var out []glueCand
	seen := map[string]bool{}
	neg := map[token.Token]string{token.LSS: ">=", token.LEQ: ">", token.GTR: "<=", token.GEQ: "<", token.NEQ: "=", token.EQL: "!="}
	pos := map[token.Token]string{token.LSS: "<", token.LEQ: "<=", token.GTR: ">", token.GEQ: ">=", token.NEQ: "!=", token.EQL: "="}
	flip := map[string]string{"<": ">", "<=": ">=", ">": "<", ">=": "<=", "=": "=", "!=": "!="}
	for _, phi := range phis {
		if b, ok := phi.Type().Underlying().(*types.Basic); !ok || b.Info()&types.IsInteger == 0 {
			continue
		}
		hdr := phi.Block()
		for i, pred := range hdr.Preds {
			if len(pred.Instrs) == 0 || i >= len(phi.Edges) {
				continue
			}
			br, ok := pred.Instrs[len(pred.Instrs)-1].(*ssa.If)
			if !ok {
				continue
			}
			cmp, ok := br.Cond.(*ssa.BinOp)
			if !ok {
				continue
			}
			rel, ok := pos[cmp.Op]
			if !ok {
				continue
			}
			if pred.Succs[0] != hdr {
				rel = neg[cmp.Op]
			}
			var bound ssa.Value
			switch {
			case cmp.X == phi.Edges[i]:
				bound = cmp.Y
			case cmp.Y == phi.Edges[i]:
				bound, rel = cmp.X, flip[rel]
			default:
				continue
			}
			if rel == "=" {
				continue
			}
			if _, isConst := bound.(*ssa.Const); !isConst {
				if in, isInstr := bound.(ssa.Instruction); isInstr {
					lpHas := false
					// the bound must not be computed inside the loop: it has to dominate the header
					if !in.Block().Dominates(hdr) || in.Block() == hdr {
						lpHas = true
					}
					if lpHas {
						continue
					}
				}
			}
			name := fmt.Sprintf("guard:%s%s%s", phiKey(phi), rel, boundName(bound))
			if seen[name] {
				continue
			}
			seen[name] = true
			out = append(out, glueCand{Phi: phi, Rel: rel, Bound: bound, Name: name})
		}
	}
	return out
}

func boundName(v ssa.Value) string {
	if c, ok := v.(*ssa.Const); ok {
		return c.Value.ExactString()
	}
	if p, ok := v.(*ssa.Phi); ok {
		return phiKey(p)
	}
	return describeValue(v)
}

// phiKey: a stable name for a header phi: its ordinal among the header's phis of the same type.
func phiKey(phi *ssa.Phi) string {
	n := 0
	for _, in := range phi.Block().Instrs {
		p, ok := in.(*ssa.Phi)
		if !ok {
			break
		}
		if types.Identical(p.Type(), phi.Type()) {
			n++
		}
		if p == phi {
			break
		}
	}
	return fmt.Sprintf("carried<%s>#%d", types.TypeString(phi.Type(), func(*types.Package) string { return "" }), n)
}

// ------------------------------------------------------------------ write sets

type heapWrite struct {
	heap, sort string
	ref        ssa.Value // non-nil: only this object (defined outside the loop)
	viaField   *ssa.FieldAddr // the object is the value of this field (loaded inside the loop, field not written in the loop)
	slice      bool      // ref is a slice value: havoc Elems[sarr(ref)]
	whole      bool
	freshOnly  bool // writes only touch objects allocated inside the loop
}

type loopWriteSet struct {
	volatileCells []ssa.Value // cells captured by a contracted closure created in the loop and assignable by it
	writes  []heapWrite
	ghosts  map[string]bool
	user    bool
	alloc   bool
	hasNext bool
	locks   bool
	chans   bool
}

func (vc *FuncVC) loopWrites(st *State, fr *Frame, lp *loop) *loopWriteSet {
	ws := &loopWriteSet{ghosts: map[string]bool{}}
	isTop := len(st.frames) == 1
	seenFn := map[*ssa.Function]bool{}
	var scanFn func(fn *ssa.Function, blocks map[*ssa.BasicBlock]bool, top bool)
	addWhole := func(heap, sort string) {
		ws.writes = append(ws.writes, heapWrite{heap: heap, sort: sort, whole: true})
	}
	w := vc.w
	scanInstr := func(in ssa.Instruction, top bool) {
		switch x := in.(type) {
		case *ssa.Store:
			vc.classifyStore(ws, x.Addr, lp, top)
		case *ssa.MapUpdate:
			mt := x.Map.Type().Underlying().(*types.Map)
			dn, dso, vn, vso := mapHeaps(w, mt)
			if top && definedOutside(x.Map, lp) {
				ws.writes = append(ws.writes, heapWrite{heap: dn, sort: dso, ref: x.Map}, heapWrite{heap: vn, sort: vso, ref: x.Map})
			} else if fa := stableFieldLoad(x.Map, lp); top && fa != nil {
				ws.writes = append(ws.writes, heapWrite{heap: dn, sort: dso, viaField: fa}, heapWrite{heap: vn, sort: vso, viaField: fa})
			} else {
				addWhole(dn, dso)
				addWhole(vn, vso)
			}
		case *ssa.Alloc, *ssa.MakeClosure, *ssa.MakeMap, *ssa.MakeSlice, *ssa.MakeChan:
			ws.alloc = true
			if mc, ok := in.(*ssa.MakeClosure); ok && top {
				if f, ok := mc.Fn.(*ssa.Function); ok {
					if ct := vc.eng.spec.Contracts[relName(f)]; ct != nil {
						for _, asg := range ct.Assigns {
							u, ok := asg.(EUnary)
							if !ok || u.Op != "*" {
								continue
							}
							id, ok := u.X.(EIdent)
							if !ok {
								continue
							}
							fnames := vc.eng.freeVarNames(f, ct, vc.w)
							for bi := range f.FreeVars {
								if fnames[bi] == id.Name && bi < len(mc.Bindings) && definedOutside(mc.Bindings[bi], lp) {
									ws.volatileCells = append(ws.volatileCells, mc.Bindings[bi])
								}
							}
						}
					}
				}
			}
			switch y := in.(type) {
			case *ssa.MakeMap:
				mt := y.Type().Underlying().(*types.Map)
				dn, dso, vn, vso := mapHeaps(w, mt)
				ws.writes = append(ws.writes, heapWrite{heap: dn, sort: dso, freshOnly: true}, heapWrite{heap: vn, sort: vso, freshOnly: true})
			case *ssa.MakeSlice:
				es := w.sortOf(y.Type().Underlying().(*types.Slice).Elem())
				hn, hs := elemsHeap(es)
				ws.writes = append(ws.writes, heapWrite{heap: hn, sort: hs, freshOnly: true})
			case *ssa.Alloc:
				vc.allocWrites(ws, y)
			}
		case *ssa.Next:
			ws.hasNext = true
		case *ssa.Send, *ssa.Select:
			ws.chans = true
			if _, isSel := in.(*ssa.Select); isSel {
				for _, g := range []string{"lastSelIdx", "lastRecvOk", "lastRecv0", "lastRecv1", "lastRecv2"} {
					ws.ghosts[g] = true
				}
				if isTop && top {
					vc.ruleGhosts(ws, "select", "any")
				}
			} else if isTop && top {
				vc.ruleGhosts(ws, "send", describeValue(in.(*ssa.Send).Chan))
			}
		case *ssa.Go:
			ws.alloc = true
			ws.ghosts["spawned"] = true
			if isTop && top {
				vc.ruleGhosts(ws, "go", callTargetName(x.Common()))
			}
		case *ssa.Call:
			cc := x.Common()
			target := callTargetName(cc)
			if isTop && top {
				vc.ruleGhosts(ws, "call", target)
				if cc.IsInvoke() {
					for _, name := range vc.eng.spec.Order {
						if strings.HasSuffix(name, "."+cc.Method.Name()) {
							vc.ruleGhosts(ws, "call", name)
						}
					}
				}
			}
			if cc.IsInvoke() {
				if nt, ok := cc.Value.Type().(*types.Named); ok && nt.Obj().Pkg() != nil && nt.Obj().Pkg().Path() == "context" {
					return
				}
				for _, name := range vc.eng.spec.Order {
					c := vc.eng.spec.Contracts[name]
					if c.Abstract && strings.HasSuffix(name, "."+cc.Method.Name()) && contains(c.Havoc, "user") {
						ws.user = true
					}
				}
				return
			}
			if b, ok := cc.Value.(*ssa.Builtin); ok {
				switch b.Name() {
				case "append":
					ws.alloc = true
					if isTop && top {
						vc.ruleGhosts(ws, "call", "builtin.append")
					}
					es := w.sortOf(cc.Args[0].Type().Underlying().(*types.Slice).Elem())
					hn, hs := elemsHeap(es)
					if top && definedOutside(cc.Args[0], lp) {
						ws.writes = append(ws.writes, heapWrite{heap: hn, sort: hs, ref: cc.Args[0], slice: true})
					} else {
						addWhole(hn, hs)
					}
				case "delete":
					mt := cc.Args[0].Type().Underlying().(*types.Map)
					dn, dso, _, _ := mapHeaps(w, mt)
					addWhole(dn, dso)
				case "copy":
					es := w.sortOf(cc.Args[0].Type().Underlying().(*types.Slice).Elem())
					hn, hs := elemsHeap(es)
					addWhole(hn, hs)
				case "close":
					ws.chans = true
				}
				return
			}
			callee := cc.StaticCallee()
			if callee == nil {
				// dynamic: unknown function value => user code (or a known closure, scanned conservatively)
				ws.user = true
				ws.alloc = true
				if mc, ok := cc.Value.(*ssa.MakeClosure); ok {
					if f, ok := mc.Fn.(*ssa.Function); ok && !seenFn[f] {
						seenFn[f] = true
						scanFn(f, nil, false)
					}
				}
				vc.funcValueWrites(ws, cc, lp, top)
				return
			}
			if callee.Pkg != nil && callee.Pkg.Pkg == vc.eng.pkg.Types {
				name := relName(callee)
				if ct := vc.eng.spec.Contracts[name]; ct != nil && !ct.Abstract {
					vc.contractWrites(st, ws, ct, callee)
					return
				}
				if !seenFn[callee] && callee.Blocks != nil {
					seenFn[callee] = true
					scanFn(callee, nil, false)
				}
				return
			}
			n := callee.String()
			if strings.HasPrefix(n, "(*sync.") {
				ws.locks = true
			}
			if n == "time.After" {
				ws.alloc = true
			}
			if strings.HasPrefix(n, "(reflect.Value).Set") || n == "encoding/json.Unmarshal" {
				ws.user = true
			}
		}
	}
	scanFn = func(fn *ssa.Function, blocks map[*ssa.BasicBlock]bool, top bool) {
		for _, b := range fn.Blocks {
			if blocks != nil && !blocks[b] {
				continue
			}
			for _, in := range b.Instrs {
				scanInstr(in, top)
			}
		}
	}
	scanFn(fr.fn, lp.blocks, true)
	for i := range ws.writes {
		hw := &ws.writes[i]
		if hw.viaField == nil {
			continue
		}
		pt := hw.viaField.X.Type().Underlying().(*types.Pointer).Elem()
		nt, ok := pt.(*types.Named)
		stable := ok && isObjectStruct(pt)
		if stable {
			fh := fieldHeapName(nt, nt.Underlying().(*types.Struct).Field(hw.viaField.Field))
			for _, o := range ws.writes {
				if o.heap == fh {
					stable = false
				}
			}
			if ws.user && fh == "H_SharedStore_data" {
				stable = false
			}
		}
		if !stable {
			hw.viaField = nil
			hw.whole = true
		}
	}
	if isTop && vc.contract != nil {
		if spec := vc.contract.Loops[lp.ord]; spec != nil {
			for _, s := range spec.Steps {
				ws.ghosts[lhsName(s.LHS)] = true
			}
		}
	}
	return ws
}

// stableFieldLoad: v is *(&base.f) with base defined outside the loop.
func stableFieldLoad(v ssa.Value, lp *loop) *ssa.FieldAddr {
	u, ok := v.(*ssa.UnOp)
	if !ok {
		return nil
	}
	fa, ok := u.X.(*ssa.FieldAddr)
	if !ok || !definedOutside(fa.X, lp) {
		return nil
	}
	return fa
}

func lhsName(e Expr) string {
	switch x := e.(type) {
	case EIdent:
		return x.Name
	case EIndex:
		return lhsName(x.X)
	}
	return ""
}

func (vc *FuncVC) ruleGhosts(ws *loopWriteSet, mode, target string) {
	if vc.contract == nil {
		return
	}
	for _, r := range vc.contract.Rules {
		rk := r.Kind
		rmode := "call"
		if i := strings.Index(rk, ":"); i >= 0 {
			rmode, rk = rk[:i], rk[i+1:]
		}
		cand := r.Target
		if rk != "static" {
			cand = rk + " " + r.Target
		}
		if rmode != mode || (cand != target && "dynamic:"+cand != target) {
			continue
		}
		for _, s := range r.Effects {
			ws.ghosts[lhsName(s.LHS)] = true
		}
	}
}

func (vc *FuncVC) allocWrites(ws *loopWriteSet, y *ssa.Alloc) {
	w := vc.w
	pt := y.Type().Underlying().(*types.Pointer).Elem()
	switch u := pt.Underlying().(type) {
	case *types.Array:
		es := w.sortOf(u.Elem())
		hn, hs := elemsHeap(es)
		ws.writes = append(ws.writes, heapWrite{heap: hn, sort: hs, freshOnly: true})
		return
	case *types.Struct:
		if isObjectStruct(pt) {
			nt := pt.(*types.Named)
			for i := 0; i < u.NumFields(); i++ {
				f := u.Field(i)
				if isSyncType(f.Type()) {
					continue
				}
				ws.writes = append(ws.writes, heapWrite{heap: fieldHeapName(nt, f), sort: arraySort(SInt, w.sortOf(f.Type())), freshOnly: true})
			}
			return
		}
	}
	if isSyncType(pt) {
		return
	}
	so := w.sortOf(pt)
	hn, hs := cellHeap(so)
	ws.writes = append(ws.writes, heapWrite{heap: hn, sort: hs, freshOnly: true})
}

// classifyStore decides how precisely a store inside a loop can be framed.
func (vc *FuncVC) classifyStore(ws *loopWriteSet, addr ssa.Value, lp *loop, top bool) {
	w := vc.w
	switch a := addr.(type) {
	case *ssa.FieldAddr:
		pt := a.X.Type().Underlying().(*types.Pointer).Elem()
		stt := pt.Underlying().(*types.Struct)
		f := stt.Field(a.Field)
		if isObjectStruct(pt) {
			nt := pt.(*types.Named)
			hw := heapWrite{heap: fieldHeapName(nt, f), sort: arraySort(SInt, w.sortOf(f.Type()))}
			if top && definedOutside(a.X, lp) {
				hw.ref = a.X
			} else if al, ok := a.X.(*ssa.Alloc); ok && lp.blocks[al.Block()] && top {
				hw.freshOnly = true
			} else {
				hw.whole = true
			}
			ws.writes = append(ws.writes, hw)
			return
		}
		// field of a value struct held in a cell or element: classify the base address
		vc.classifyStore(ws, a.X, lp, top)
	case *ssa.IndexAddr:
		switch u := a.X.Type().Underlying().(type) {
		case *types.Slice:
			hn, hs := elemsHeap(w.sortOf(u.Elem()))
			if top && definedOutside(a.X, lp) {
				ws.writes = append(ws.writes, heapWrite{heap: hn, sort: hs, ref: a.X, slice: true})
			} else if ms, ok := a.X.(*ssa.MakeSlice); ok && top && lp.blocks[ms.Block()] {
				ws.writes = append(ws.writes, heapWrite{heap: hn, sort: hs, freshOnly: true})
			} else {
				ws.writes = append(ws.writes, heapWrite{heap: hn, sort: hs, whole: true})
			}
		case *types.Pointer:
			at := u.Elem().Underlying().(*types.Array)
			hn, hs := elemsHeap(w.sortOf(at.Elem()))
			if top && definedOutside(a.X, lp) {
				ws.writes = append(ws.writes, heapWrite{heap: hn, sort: hs, ref: a.X})
			} else if al, ok := a.X.(*ssa.Alloc); ok && top && lp.blocks[al.Block()] {
				ws.writes = append(ws.writes, heapWrite{heap: hn, sort: hs, freshOnly: true})
			} else {
				ws.writes = append(ws.writes, heapWrite{heap: hn, sort: hs, whole: true})
			}
		}
	default:
		// pointer to a cell
		pt, ok := addr.Type().Underlying().(*types.Pointer)
		if !ok {
			return
		}
		if isSyncType(pt.Elem()) {
			return
		}
		so := w.sortOf(pt.Elem())
		hn, hs := cellHeap(so)
		if top && definedOutside(addr, lp) {
			ws.writes = append(ws.writes, heapWrite{heap: hn, sort: hs, ref: addr})
		} else if al, ok := addr.(*ssa.Alloc); ok && top && lp.blocks[al.Block()] {
			ws.writes = append(ws.writes, heapWrite{heap: hn, sort: hs, freshOnly: true})
		} else {
			ws.writes = append(ws.writes, heapWrite{heap: hn, sort: hs, whole: true})
		}
	}
}

func (vc *FuncVC) funcValueWrites(ws *loopWriteSet, cc *ssa.CallCommon, lp *loop, top bool) {
	w := vc.w
	for _, a := range cc.Args {
		pt, ok := a.Type().Underlying().(*types.Pointer)
		if !ok {
			continue
		}
		nt, ok := pt.Elem().(*types.Named)
		if !ok || !isObjectStruct(nt) || nt.Obj().Name() == "SharedStore" {
			continue
		}
		stt := nt.Underlying().(*types.Struct)
		for j := 0; j < stt.NumFields(); j++ {
			f := stt.Field(j)
			if isSyncType(f.Type()) {
				continue
			}
			hw := heapWrite{heap: fieldHeapName(nt, f), sort: arraySort(SInt, w.sortOf(f.Type()))}
			if top && definedOutside(a, lp) {
				hw.ref = a
			} else if fa := stableFieldLoad(a, lp); top && fa != nil {
				hw.viaField = fa
			} else {
				hw.whole = true
			}
			ws.writes = append(ws.writes, hw)
		}
	}
}

// contractWrites: which heap arrays a contracted callee may change, found by
// applying its frame to a scratch state with dummy arguments.
func (vc *FuncVC) contractWrites(st *State, ws *loopWriteSet, ct *Contract, callee *ssa.Function) {
	scratch := st.clone()
	savedDecls := len(vc.decls)
	savedFresh := vc.nfresh
	savedUns := len(vc.unsupported)
	vars := map[string]any{}
	for i, p := range callee.Params {
		if i < len(ct.Params) {
			vars[ct.Params[i]] = scratch.freshV("dummy", p.Type())
		}
	}
	before := map[string]string{}
	for k, v := range scratch.heap {
		before[k] = v
	}
	gbefore := map[string]V{}
	for k, v := range scratch.ghost {
		gbefore[k] = v
	}
	sc := vc.newScope(scratch, vars)
	vc.applyHavoc(scratch, sc, ct, "scan")
	for k, v := range scratch.heap {
		if before[k] != v {
			if k == "alive" {
				ws.alloc = true
				continue
			}
			ws.writes = append(ws.writes, heapWrite{heap: k, sort: vc.heapSorts[k], whole: true})
		}
	}
	if contains(ct.Havoc, "user") {
		ws.user = true
	}
	_ = gbefore
	// keep the declarations (harmless) but restore counters for determinism of names
	_ = savedDecls
	_ = savedFresh
	vc.unsupported = vc.unsupported[:savedUns]
}

// applyLoopHavoc forgets everything the loop body may have changed.
func (vc *FuncVC) applyLoopHavoc(st *State, fr *Frame, lp *loop, ws *loopWriteSet) {
	for _, cv := range ws.volatileCells {
		v, ok := vc.val(st, fr, cv).(V)
		pt, isPtr := cv.Type().Underlying().(*types.Pointer)
		if !ok || !isPtr || isSyncType(pt.Elem()) {
			continue
		}
		hn, _ := cellHeap(vc.w.sortOf(pt.Elem()))
		if st.volatile == nil {
			st.volatile = map[string]bool{}
		}
		st.volatile[hn+"|"+v.T] = true
	}
	aliveAtEntry := st.heapGet("alive", aliveSort)
	if ws.alloc || ws.user {
		nw := st.heapHavoc("alive", aliveSort)
		st.assume(fmt.Sprintf("(forall ((r Int)) (! (=> (select %s r) (select %s r)) :pattern ((select %s r))))", aliveAtEntry, nw, aliveAtEntry))
	}
	done := map[string]bool{}
	// whole-array havocs first
	for _, hw := range ws.writes {
		if hw.whole && !done[hw.heap] {
			done[hw.heap] = true
			st.heapHavoc(hw.heap, hw.sort)
		}
	}
	for _, hw := range ws.writes {
		if done[hw.heap] || hw.whole {
			continue
		}
		if hw.viaField != nil {
			base, ok := vc.val(st, fr, hw.viaField.X).(V)
			if !ok {
				done[hw.heap] = true
				st.heapHavoc(hw.heap, hw.sort)
				continue
			}
			pt := hw.viaField.X.Type().Underlying().(*types.Pointer).Elem()
			nt := pt.(*types.Named)
			f := nt.Underlying().(*types.Struct).Field(hw.viaField.Field)
			fs := vc.w.sortOf(f.Type())
			ref := sel(st.heapGet(fieldHeapName(nt, f), arraySort(SInt, fs)), base.T)
			_, inner := splitArraySort(hw.sort)
			cur := st.heapGet(hw.heap, hw.sort)
			st.heapSet(hw.heap, hw.sort, sto(cur, ref, st.fresh("hv", inner)))
			continue
		}
		if hw.ref != nil {
			rv, ok := fr.env[hw.ref].(V)
			if !ok {
				if c, isC := fr.env[hw.ref].(*ssa.Const); isC {
					_ = c
				}
				pv := vc.val(st, fr, hw.ref)
				if v2, ok2 := pv.(V); ok2 {
					rv = v2
				} else {
					done[hw.heap] = true
					st.heapHavoc(hw.heap, hw.sort)
					continue
				}
			}
			ref := rv.T
			if hw.slice {
				ref = app("sarr", rv.T)
			}
			_, inner := splitArraySort(hw.sort)
			cur := st.heapGet(hw.heap, hw.sort)
			st.heapSet(hw.heap, hw.sort, sto(cur, ref, st.fresh("hv", inner)))
		}
	}
	// writes to objects allocated inside the loop: everything alive at loop entry keeps its value
	fo := map[string]string{}
	for _, hw := range ws.writes {
		if hw.freshOnly && !done[hw.heap] {
			fo[hw.heap] = hw.sort
		}
	}
	var fon []string
	for k := range fo {
		fon = append(fon, k)
	}
	sort.Strings(fon)
	for _, k := range fon {
		cur := st.heapGet(k, fo[k])
		nw := st.heapHavoc(k, fo[k])
		st.assume(fmt.Sprintf("(forall ((r Int)) (! (=> (select %s r) (= (select %s r) (select %s r))) :pattern ((select %s r))))", aliveAtEntry, nw, cur, nw))
	}
	if ws.user {
		vc.userEffect(st)
		k := st.fresh("cbs", SInt)
		st.assume(app(">=", k, "0"))
		st.ghost["callbacks"] = V{app("+", st.ghost["callbacks"].T, k), SInt, nil}
	}
	// built-in ghost state that may change at observation points
	{
		c := st.fresh("cancelled", SBool)
		st.assume(implies(st.ghost["cancelled"].T, c))
		st.ghost["cancelled"] = V{c, SBool, nil}
		n := st.fresh("now", SInt)
		st.assume(app(">=", n, st.ghost["now"].T))
		st.ghost["now"] = V{n, SInt, nil}
		sw := st.fresh("sawCancel", SBool)
		st.assume(implies(st.ghost["sawCancel"].T, sw))
		st.ghost["sawCancel"] = V{sw, SBool, nil}
	}
	// user ghost variables changed by monitor rules that can fire in the loop
	var gn []string
	for g := range ws.ghosts {
		gn = append(gn, g)
	}
	sort.Strings(gn)
	for _, g := range gn {
		cur, ok := st.ghost[g]
		if !ok || g == "" {
			continue
		}
		nv := V{st.fresh("g_"+g, cur.S), cur.S, cur.GT}
		if cur.GT != nil {
			st.assume(intRange(cur.GT, nv.T))
		}
		st.ghost[g] = nv
	}
	if ws.hasNext {
		for _, g := range st.ghostNames() {
			if strings.HasPrefix(g, "visited#") && !strings.HasSuffix(g, ".dom") {
				cur := st.ghost[g]
				nv := st.fresh("visited", cur.S)
				dom0 := st.ghost[g+".dom"].T
				ks, _ := splitArraySort(cur.S)
				st.assume(fmt.Sprintf("(forall ((k %s)) (! (=> (select %s k) (select %s k)) :pattern ((select %s k))))", ks, nv, dom0, nv))
				st.ghost[g] = V{nv, cur.S, nil}
			}
		}
	}
	if ws.chans {
		vc.havocChans(st)
	}
}
