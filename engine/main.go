package main

import (
	"flag"
	"fmt"
	"os"
	"runtime"
	"sort"
	"strings"
	"sync"
	"time"

	"golang.org/x/tools/go/ssa"
)

type funcResult struct {
	Name        string
	VC          *FuncVC
	Obligs      []*Oblig
	Failed      []*Oblig
	Unsupported []string
	Iter        int
	Secs        float64
	GlueKept    map[string][]string
	Agree, Unknown, Disagree int
}

// verifyFunc runs the Houdini loop for glue and then discharges everything.
func (e *Engine) verifyFunc(name, prop string, cfg solverCfg, verbose bool) *funcResult {
	t0 := time.Now()
	fr := &funcResult{Name: name, GlueKept: map[string][]string{}}
	vc, err := e.newVC(name, prop)
	if err != nil {
		fr.Unsupported = []string{err.Error()}
		return fr
	}
	fr.VC = vc
	glueCfg := cfg
	if glueCfg.timeoutMs > 2000*shortScale {
		glueCfg.timeoutMs = 2000 * shortScale
	}
	for iter := 1; iter <= 12; iter++ {
		fr.Iter = iter
		vc.symbolicRun()
		if len(vc.unsupported) > 0 || vc.aborted != "" {
			break
		}
		var glueObs []*Oblig
		for _, o := range vc.obligs {
			if o.Glue {
				glueObs = append(glueObs, o)
			}
		}
		if len(glueObs) == 0 {
			break
		}
		vc.solveAll(glueObs, glueCfg)
		failed := map[string]bool{}
		for _, o := range glueObs {
			if o.Result != "unsat" {
				// name: F/loopK/glue-entry:<cand> or glue-preserved:<cand>
				i := strings.Index(o.Name, "/glue-")
				j := strings.Index(o.Name[i:], ":")
				loopPart := o.Name[len(vc.name)+1 : i]
				failed[loopPart+"|"+o.Name[i+j+1:]] = true
			}
		}
		if len(failed) == 0 {
			break
		}
		for f := range failed {
			// optional invariants: "<loop>|candidate#<ord>"
			if i := strings.Index(f, "|candidate#"); i >= 0 {
				vc.candDropped[vc.name+"/"+f[:i]+"|"+f[i+len("|candidate#"):]] = true
			}
		}
		for key, cands := range vc.glue {
			lp := key[strings.LastIndex(key, "/")+1:]
			var keep []glueCand
			for _, c := range cands {
				if !failed[lp+"|"+c.Name] {
					keep = append(keep, c)
				}
			}
			vc.glue[key] = keep
		}
		if verbose {
			var fl []string
			for k := range failed {
				fl = append(fl, k)
			}
			sort.Strings(fl)
			fmt.Printf("  [%s] glue iteration %d: dropped %d candidates: %s\n", name, iter, len(failed), strings.Join(fl, " "))
		}
	}
	for key, cands := range vc.glue {
		for _, c := range cands {
			fr.GlueKept[key] = append(fr.GlueKept[key], c.Name)
		}
	}
	fr.Unsupported = append(fr.Unsupported, vc.unsupported...)
	if vc.aborted != "" {
		fr.Unsupported = append(fr.Unsupported, vc.aborted)
	}
	if len(fr.Unsupported) > 0 {
		// the function is outside the verified subset: that alone is reported (every obligation of it is undecided)
		fr.Obligs = nil
		fr.Secs = time.Since(t0).Seconds()
		return fr
	}
	var rest []*Oblig
	for _, o := range vc.obligs {
		if o.Result == "" {
			rest = append(rest, o)
		}
	}
	vc.solveAll(rest, cfg)
	if cfg.thorough {
		fr.Agree, fr.Unknown, fr.Disagree = vc.crossCheck(vc.obligs, cfg)
	}
	fr.Obligs = vc.obligs
	// vacuity guards: the entry and every loop head must be satisfiable, and every
	// event (call site, callback, loop cut, back edge, return) must lie on at least
	// one complete path that is not refuted.
	labelOK := map[string]bool{}
	labelSeen := map[string]bool{}
	var labelOrder []string
	for _, o := range vc.obligs {
		if o.Kind != "cover" {
			if o.Result != o.Expect {
				fr.Failed = append(fr.Failed, o)
			}
			continue
		}
		if strings.HasSuffix(o.Name, "cover:entry") || strings.HasSuffix(o.Name, "cover:head") {
			if o.Result == "unsat" {
				o.Name += " (vacuous: contradictory assumptions)"
				fr.Failed = append(fr.Failed, o)
			}
			continue
		}
		for _, ev := range o.Trace {
			f := strings.Fields(ev)
			l := f[0]
			switch f[0] {
			case "call", "callback", "inline", "loop-cut", "back-edge", "go", "send", "close":
				if len(f) >= 2 {
					l = f[0] + " " + f[1]
				}
			}
			if !labelSeen[l] {
				labelSeen[l] = true
				labelOrder = append(labelOrder, l)
			}
			if o.Result != "unsat" {
				labelOK[l] = true
			}
		}
	}
	primary := false
	for _, o := range fr.Failed {
		if o.Kind != "cover" {
			primary = true
		}
	}
	for _, l := range labelOrder {
		// an obligation that failed is assumed afterwards, which can make the rest of its path infeasible:
		// unreachable events are only reported when nothing else failed in the function
		if !labelOK[l] && !primary {
			fr.Failed = append(fr.Failed, &Oblig{Name: name + "/vacuous:no feasible complete path through '" + l + "'", Func: name, Kind: "cover", Result: "unsat", Expect: "sat"})
		}
	}
	if len(vc.unsupported) == 0 && vc.returns == 0 && !(vc.contract != nil && vc.contract.NoReturn) {
		fr.Failed = append(fr.Failed, &Oblig{Name: name + "/vacuous:no return path", Func: name, Kind: "cover", Result: "unsat", Expect: "sat"})
	}
	fr.Secs = time.Since(t0).Seconds()
	return fr
}

// closure of contracted callees reachable from fn (through inlined functions too).
func (e *Engine) contractedCallees(fn *ssa.Function, seen map[*ssa.Function]bool, out map[string]bool) {
	if seen[fn] {
		return
	}
	seen[fn] = true
	for _, b := range fn.Blocks {
		for _, in := range b.Instrs {
			var targets []*ssa.Function
			switch x := in.(type) {
			case ssa.CallInstruction:
				if f := x.Common().StaticCallee(); f != nil {
					targets = append(targets, f)
				}
				if mc, ok := x.Common().Value.(*ssa.MakeClosure); ok {
					if f, ok := mc.Fn.(*ssa.Function); ok {
						targets = append(targets, f)
					}
				}
			case *ssa.MakeClosure:
				if f, ok := x.Fn.(*ssa.Function); ok {
					targets = append(targets, f)
				}
			}
			for _, f := range targets {
				if f.Pkg != e.spkg {
					continue
				}
				n := relName(f)
				if ct := e.spec.Contracts[n]; ct != nil && !ct.Abstract {
					if !out[n] {
						out[n] = true
						e.contractedCallees(f, seen, out)
					}
				} else {
					e.contractedCallees(f, seen, out)
				}
			}
		}
	}
}

func (e *Engine) functionsFor(prop string) []string {
	set := map[string]bool{}
	for _, n := range e.spec.Order {
		ct := e.spec.Contracts[n]
		if ct.Abstract {
			continue
		}
		if prop == "" || ct.Props[prop] {
			set[n] = true
		}
	}
	seen := map[*ssa.Function]bool{}
	for n := range set {
		fname := n
		if i := strings.Index(n, "+"); i >= 0 {
			fname = n[:i]
		}
		if fn := e.funcs[fname]; fn != nil {
			e.contractedCallees(fn, seen, set)
		}
	}
	var out []string
	for n := range set {
		if ct := e.spec.Contracts[n]; ct != nil && ct.Trusted {
			continue
		}
		out = append(out, n)
	}
	sort.Strings(out)
	return out
}

func main() {
	if len(os.Args) < 2 {
		fmt.Fprintln(os.Stderr, "usage: flytvc check|verify|list ...")
		os.Exit(2)
	}
	cmd := os.Args[1]
	fs := flag.NewFlagSet(cmd, flag.ExitOnError)
	repo := fs.String("repo", "/repo", "repository working tree")
	prop := fs.String("property", "", "property id (projection by tag)")
	fn := fs.String("func", "", "verify only this function")
	tier := fs.String("tier", "quick", "quick|thorough")
	verbose := fs.Bool("v", false, "verbose")
	dump := fs.String("dump", "", "directory to dump failing queries")
	out := fs.String("out", "/verif", "verif directory (evidence, replays, known findings)")
	noReplay := fs.Bool("no-replay", false, "skip counterexample replay")
	file := fs.String("file", "", "replay file (replay command)")
	fs.Parse(os.Args[2:])
	if t := os.Getenv("VERIF_TIER"); t != "" && cmd == "check" {
		*tier = t
	}
	cfg := solverCfg{timeoutMs: 10000, workers: runtime.NumCPU(), thorough: *tier == "thorough"}
	if cfg.thorough {
		cfg.timeoutMs = 60000
	}
	cfg.timeoutMs *= loadScale
	t0 := time.Now()
	e, err := loadEngine(*repo)
	if err != nil {
		fmt.Fprintln(os.Stderr, "load error:", err)
		if cmd == "check" {
			reportLoadFailure(*out, *prop, *tier, err)
		}
		os.Exit(1)
	}
	e.loadSecs = time.Since(t0).Seconds()
	switch cmd {
	case "replay":
		os.Exit(replayFile(*repo, *file))
	case "list":
		for _, p := range []string{*prop} {
			for _, n := range e.functionsFor(p) {
				fmt.Println(n)
			}
		}
	case "verify", "check":
		var names []string
		if *fn != "" {
			names = []string{*fn}
		} else {
			names = e.functionsFor(*prop)
		}
		results := make([]*funcResult, len(names))
		var wg sync.WaitGroup
		sem := make(chan struct{}, 4)
		for i, n := range names {
			i, n := i, n
			wg.Add(1)
			go func() {
				defer wg.Done()
				sem <- struct{}{}
				defer func() { <-sem }()
				results[i] = e.verifyFunc(n, *prop, cfg, *verbose)
			}()
		}
		wg.Wait()
		code := report(e, results, *prop, *tier, *out, *verbose, *dump, cmd == "check", !*noReplay, time.Since(t0).Seconds())
		os.Exit(code)
	default:
		fmt.Fprintln(os.Stderr, "unknown command", cmd)
		os.Exit(2)
	}
}
