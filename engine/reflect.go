package main

import "golang.org/x/tools/go/ssa"

// reflectModel: T10 models of reflect / encoding/json (added with C15/C16).
func (vc *FuncVC) reflectModel(st *State, fr *Frame, instr ssa.Instruction, callee *ssa.Function, args []any, site string) ([]any, bool) {
	return nil, false
}
