package main

// T10: contracts of the reflect and encoding/json functions the package uses.
// Everything here is an assumption about the library, listed in evidence.

import (
	"fmt"
	"go/types"
	"strings"

	"golang.org/x/tools/go/ssa"
)

const rvSort = "S_reflect_Value"

func (vc *FuncVC) declT10() {
	w := vc.w
	vc.trusted["T10 reflect/json: ValueOf/Kind/Len/Index/Interface/IsNil/Type/Elem/Set and json.Marshal/Unmarshal behave as documented; Marshal/Unmarshal are uninterpreted functions of their inputs"] = true
	// make sure the reflect.Value datatype exists
	for _, imp := range vc.eng.pkg.Types.Imports() {
		if imp.Path() == "reflect" {
			if obj := imp.Scope().Lookup("Value"); obj != nil {
				w.sortOf(obj.Type())
			}
		}
	}
	w.declare("rvIface", fmt.Sprintf("(declare-fun rvIface (%s) Iface)\n(declare-fun rvTarget (%s) Iface)", rvSort, rvSort))
	w.declare("spec:lenOf", "(declare-fun sf_lenOf (Iface) Int)")
	w.declare("spec:elemOf", "(declare-fun sf_elemOf (Iface Int) Iface)")
	w.declare("rtid", "(declare-fun rtid (Type) Int)\n(declare-fun rtidInv (Int) Type)\n(assert (forall ((t Type)) (! (and (= (rtidInv (rtid t)) t) (> (rtid t) 0)) :pattern ((rtid t)))))")
	w.declare("spec:jsonEnc", "(declare-fun sf_jsonEnc (Iface) Slice)")
	w.declare("spec:jsonEncErr", "(declare-fun sf_jsonEncErr (Iface) Iface)")
	w.declare("spec:jsonDec", "(declare-fun sf_jsonDec (Slice Iface Iface) Iface)")
	w.declare("spec:jsonDecErr", "(declare-fun sf_jsonDecErr (Slice Iface Iface) Iface)")
	w.declare("isNilPayload", "(declare-fun isNilPayload (Iface) Bool)")
}

func (vc *FuncVC) rtypeConst() string {
	// the dynamic type of reflect.Type values (*reflect.rtype); only its identity matters
	n := "T_Preflect_rtype"
	if _, ok := vc.w.typeConsts[n]; !ok {
		vc.w.typeConsts[n] = types.NewPointer(types.Typ[types.Uintptr])
		vc.w.typeOrder = append(vc.w.typeOrder, n)
	}
	return n
}

func (vc *FuncVC) rtOf(typTerm string) string {
	return app("mkI", vc.rtypeConst(), app("bInt", app("rtid", typTerm)))
}

func kindIn(k string, ks ...int) string {
	var ds []string
	for _, x := range ks {
		ds = append(ds, eq(k, fmt.Sprint(x)))
	}
	return or(ds...)
}

func (vc *FuncVC) kindOfIface(x string) string {
	return ite(eq(x, "nilI"), "0", app("kindOf", app("typ", x)))
}

// pointee ghost heap: what a pointer held in an interface points to, as an interface value.
func (vc *FuncVC) pointeeGet(st *State) string {
	return st.heapGet("Pointee", arraySort(SInt, SIface))
}

func (vc *FuncVC) reflectModel(st *State, fr *Frame, instr ssa.Instruction, callee *ssa.Function, args []any, site string) ([]any, bool) {
	vc.declT10()
	_ = vc.w
	name := callee.String()
	argV := func(i int) V { return args[i].(V) }
	freshRV := func() V {
		return V{st.fresh("rv", rvSort), rvSort, nil}
	}
	switch name {
	case "reflect.ValueOf":
		x := argV(0)
		r := freshRV()
		st.assume(eq(app("rvIface", r.T), x.T))
		return []any{r}, true
	case "reflect.Zero":
		// the zero value of a type, as an interface value: an uninterpreted function of the type
		t := argV(0)
		vc.w.declare("zeroOfType", "(declare-fun zeroOfType (Type) Iface)")
		vc.nopanic(st, "reflect-zero-nil-type", instr, not(eq(t.T, "nilI")))
		r := freshRV()
		st.assume(eq(app("rvIface", r.T), app("zeroOfType", app("rtidInv", app("uInt", app("pay", t.T))))))
		return []any{r}, true
	case "reflect.TypeOf":
		x := argV(0)
		return []any{V{ite(eq(x.T, "nilI"), "nilI", vc.rtOf(app("typ", x.T))), SIface, nil}}, true
	case "(reflect.Value).Kind":
		x := app("rvIface", argV(0).T)
		return []any{V{vc.kindOfIface(x), SInt, callee.Signature.Results().At(0).Type()}}, true
	case "(reflect.Value).Len":
		x := app("rvIface", argV(0).T)
		vc.nopanic(st, "reflect-len-kind", instr, kindIn(vc.kindOfIface(x), 17, 18, 21, 23, 24))
		l := app("sf_lenOf", x)
		st.assume(app(">=", l, "0"))
		st.assume(intRange(types.Typ[types.Int], l))
		st.assume(implies(and(not(eq(x, "nilI")), eq(app("kindOf", app("typ", x)), "23")), eq(l, app("slen", app("uSlice", app("pay", x))))))
		return []any{V{l, SInt, types.Typ[types.Int]}}, true
	case "(reflect.Value).Index":
		x := app("rvIface", argV(0).T)
		i := argV(1)
		vc.nopanic(st, "reflect-index-kind", instr, kindIn(vc.kindOfIface(x), 17, 23, 24))
		vc.nopanic(st, "reflect-index-range", instr, and(app("<=", "0", i.T), app("<", i.T, app("sf_lenOf", x))))
		r := freshRV()
		st.assume(eq(app("rvIface", r.T), app("sf_elemOf", x, i.T)))
		return []any{r}, true
	case "(reflect.Value).Interface":
		x := app("rvIface", argV(0).T)
		return []any{V{x, SIface, nil}}, true
	case "(reflect.Value).IsNil":
		x := app("rvIface", argV(0).T)
		vc.nopanic(st, "reflect-isnil-kind", instr, kindIn(vc.kindOfIface(x), 18, 19, 20, 21, 22, 23, 26))
		k := app("kindOf", app("typ", x))
		st.assume(implies(kindIn(k, 18, 19, 21, 22, 26), eq(app("isNilPayload", x), eq(app("uInt", app("pay", x)), "0"))))
		return []any{V{app("isNilPayload", x), SBool, types.Typ[types.Bool]}}, true
	case "(reflect.Value).Type":
		x := app("rvIface", argV(0).T)
		vc.nopanic(st, "reflect-type-of-zero-value", instr, not(eq(x, "nilI")))
		return []any{V{vc.rtOf(app("typ", x)), SIface, nil}}, true
	case "(reflect.Value).Elem":
		x := app("rvIface", argV(0).T)
		vc.nopanic(st, "reflect-elem-kind", instr, kindIn(vc.kindOfIface(x), 20, 22))
		r := freshRV()
		st.assume(eq(app("rvTarget", r.T), x))
		st.assume(eq(app("rvIface", r.T), sel(vc.pointeeGet(st), app("uInt", app("pay", x)))))
		return []any{r}, true
	case "(reflect.Value).Set":
		dst, src := argV(0), argV(1)
		tgt := app("rvTarget", dst.T)
		sv := app("rvIface", src.T)
		// settable and assignable: the destination is the pointee of a non-nil pointer of exactly the source's type
		vc.w.declare("zeroOfType", "(declare-fun zeroOfType (Type) Iface)")
		vc.nopanic(st, "reflect-set-assignable", instr, and(not(eq(tgt, "nilI")), eq(app("kindOf", app("typ", tgt)), "22"),
			not(eq(app("uInt", app("pay", tgt)), "0")),
			or(and(not(eq(sv, "nilI")), eq(app("typ", sv), app("elemT", app("typ", tgt)))), eq(sv, app("zeroOfType", app("elemT", app("typ", tgt)))))))
		p := vc.pointeeGet(st)
		st.heapSet("Pointee", arraySort(SInt, SIface), sto(p, app("uInt", app("pay", tgt)), sv))
		return nil, true
	case "encoding/json.Marshal":
		x := argV(0)
		e := app("sf_jsonEncErr", x.T)
		b := st.freshV("json", callee.Signature.Results().At(0).Type())
		vc.assumeTypeWF(st, b, callee.Signature.Results().At(0).Type())
		st.assume(implies(eq(e, "nilI"), eq(b.T, app("sf_jsonEnc", x.T))))
		return []any{b, V{e, SIface, nil}}, true
	case "encoding/json.Unmarshal":
		data, dest := argV(0), argV(1)
		p := vc.pointeeGet(st)
		ref := app("uInt", app("pay", dest.T))
		old := sel(p, ref)
		e := app("sf_jsonDecErr", data.T, dest.T, old)
		isPtr := and(not(eq(dest.T, "nilI")), eq(app("kindOf", app("typ", dest.T)), "22"), not(eq(ref, "0")))
		// Unmarshal reports an error (never panics) for a nil or non-pointer destination, and then writes nothing
		st.assume(implies(not(isPtr), not(eq(e, "nilI"))))
		st.heapSet("Pointee", arraySort(SInt, SIface), ite(isPtr, sto(p, ref, app("sf_jsonDec", data.T, dest.T, old)), p))
		return []any{V{e, SIface, nil}}, true
	}
	if strings.HasPrefix(name, "(reflect.Kind)") {
		return nil, false
	}
	return nil, false
}

// reflectTypeMethod: methods invoked on a reflect.Type interface value.
func (vc *FuncVC) reflectTypeMethod(st *State, instr ssa.Instruction, recv V, m string, args []any) ([]any, bool) {
	vc.declT10()
	switch m {
	case "AssignableTo", "ConvertibleTo":
		// identical types are assignable; for other pairs the answer is an unspecified function of the two types
		if len(args) < 2 {
			return nil, false
		}
		other, ok := args[1].(V)
		if !ok {
			return nil, false
		}
		vc.w.declare("rt"+m, fmt.Sprintf("(declare-fun rt%s (Type Type) Bool)\n(assert (forall ((t Type)) (! (rt%s t t) :pattern ((rt%s t t)))))", m, m, m))
		vc.nopanic(st, "reflect-type-nil-arg", instr, not(eq(other.T, "nilI")))
		t1 := app("rtidInv", app("uInt", app("pay", recv.T)))
		t2 := app("rtidInv", app("uInt", app("pay", other.T)))
		return []any{V{app("rt"+m, t1, t2), SBool, types.Typ[types.Bool]}}, true
	case "Kind":
		t := app("rtidInv", app("uInt", app("pay", recv.T)))
		return []any{V{app("kindOf", t), SInt, nil}}, true
	case "Elem":
		t := app("rtidInv", app("uInt", app("pay", recv.T)))
		vc.nopanic(st, "reflect-type-elem-kind", instr, kindIn(app("kindOf", t), 17, 18, 21, 22, 23))
		return []any{V{vc.rtOf(app("elemT", t)), SIface, nil}}, true
	}
	return nil, false
}
