package main

// Counterexample replay (see replay_*.go for scenario kinds).

import (
	"encoding/json"
	"os"
	"path/filepath"
	"strings"
)

// writeReplay writes the replay file for a failed obligation and tries to
// confirm a failing input on the real code. Returns the path and whether a
// failing input was confirmed.
func writeReplay(e *Engine, outDir, prop, name string, obs []*Oblig, doReplay bool) (string, bool) {
	os.MkdirAll(filepath.Join(outDir, "replays"), 0o755)
	path := filepath.Join(outDir, "replays", prop+"-"+sanitize(name)+".json")
	o := obs[0]
	for _, x := range obs {
		if x.Model != "" {
			o = x
			break
		}
	}
	rec := map[string]any{
		"property":     prop,
		"obligation":   name,
		"kind":         o.Kind,
		"result":       o.Result,
		"solver":       o.Solver,
		"event_trace":  o.Trace,
		"goal":         o.Goal,
		"solver_output": strings.TrimSpace(o.Raw),
		"instances":    len(obs),
	}
	if o.Model != "" {
		m := o.Model
		if len(m) > 20000 {
			m = m[:20000]
		}
		rec["model"] = m
	}
	confirmed := false
	if doReplay {
		confirmed = tryReplay(e, outDir, prop, name, obs, rec)
	}
	rec["failing_input_confirmed"] = confirmed
	b, _ := json.MarshalIndent(rec, "", " ")
	os.WriteFile(path, b, 0o644)
	return path, confirmed
}

func tryReplay(e *Engine, outDir, prop, name string, obs []*Oblig, rec map[string]any) bool {
	return false
}
