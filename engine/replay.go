package main

// Counterexample replay on the real code.
//
// A failed obligation names the violated property; the harness in
// /verif/replay/harness_test.go (injected with `go test -overlay`, nothing is
// written to the repository) then searches small deterministic scenario spaces
// for an input on which the REAL code violates that property, using runtime
// oracles written from the property statements. A scenario it finds is a
// confirmed failing input. The search proves nothing; it only concretises.

import (
	"context"
	"encoding/json"
	"fmt"
	"os"
	"os/exec"
	"path/filepath"
	"strings"
	"time"
)

var replayFamilies = map[string][]string{
	"C01": {"lifecycle"}, "C02": {"lifecycle", "batch", "config", "flow"}, "C03": {"flow"}, "C04": {"lifecycle", "flow", "batch"},
	"C05": {"lifecycle", "flow"}, "C06": {"batch"}, "C07": {"batch"}, "C08": {"pool", "batch", "config"}, "C09": {"batch", "config"},
	"C10": {"flow"}, "C11": {"batch"}, "C12": {"pool"}, "C13": {"storeconc"}, "C14": {"store"}, "C15": {"value"},
	"C16": {"bind"}, "C17": {"lifecycle", "batch"}, "C18": {"lifecycle", "batch", "flow"}, "C19": {"config"}, "C20": {"lifecycle", "batch", "config"},
}

type replayOutcome struct {
	Family    string          `json:"family"`
	Property  string          `json:"property"`
	Tried     int             `json:"scenarios_tried"`
	Failing   json.RawMessage `json:"failing_scenario,omitempty"`
	Violation string          `json:"violation,omitempty"`
	Error     string          `json:"error,omitempty"`
}

func harnessPath() string {
	if p := os.Getenv("FLYTVC_HARNESS"); p != "" {
		return p
	}
	exe, err := os.Executable()
	if err == nil {
		p := filepath.Join(filepath.Dir(filepath.Dir(exe)), "replay", "harness_test.go")
		if _, err := os.Stat(p); err == nil {
			return p
		}
	}
	return "/verif/replay/harness_test.go"
}

// runHarness runs one family (or one recorded scenario) against repo.
func runHarness(repo, family, prop, one string) replayOutcome {
	out := replayOutcome{Family: family, Property: prop}
	tmp, err := os.MkdirTemp("", "flytreplay")
	if err != nil {
		out.Error = err.Error()
		return out
	}
	defer os.RemoveAll(tmp)
	ov := filepath.Join(tmp, "ov.json")
	res := filepath.Join(tmp, "res.json")
	abs, _ := filepath.Abs(repo)
	os.WriteFile(ov, []byte(fmt.Sprintf(`{"Replace":{%q:%q}}`, filepath.Join(abs, "zz_verif_replay_test.go"), harnessPath())), 0o644)
	ctx, cancel := context.WithTimeout(context.Background(), 150*time.Second)
	defer cancel()
	cmd := exec.CommandContext(ctx, "go", "test", "-overlay", ov, "-vet=off", "-count=1", "-timeout", "120s", "-run", "^TestVerifReplay$", ".")
	cmd.Dir = abs
	cmd.Env = append(os.Environ(), "GOFLAGS=-mod=mod", "GOPROXY=off", "GOSUMDB=off", "GOTOOLCHAIN=local",
		"VERIF_REPLAY_FAMILY="+family, "VERIF_REPLAY_PROPERTY="+prop, "VERIF_REPLAY_ONE="+one, "VERIF_REPLAY_OUT="+res)
	b, err := cmd.CombinedOutput()
	data, rerr := os.ReadFile(res)
	if rerr != nil {
		msg := string(b)
		if len(msg) > 1500 {
			msg = msg[len(msg)-1500:]
		}
		out.Error = fmt.Sprintf("harness produced no result (%v): %s", err, msg)
		return out
	}
	json.Unmarshal(data, &out)
	return out
}

// searchFailingInput looks for a concrete input violating prop on the real code.
func searchFailingInput(e *Engine, prop string) (found *replayOutcome, all []replayOutcome) {
	for _, fam := range replayFamilies[prop] {
		o := runHarness(e.repo, fam, prop, "")
		all = append(all, o)
		if o.Violation != "" {
			oc := o
			return &oc, all
		}
	}
	return nil, all
}

type replayCache struct {
	done  bool
	found *replayOutcome
	all   []replayOutcome
}

var replayMemo = map[string]*replayCache{}

// writeReplay writes the replay file for a failed obligation. The failing-input
// search runs once per property and process.
func writeReplay(e *Engine, outDir, prop, name string, obs []*Oblig, doReplay bool) (string, bool) {
	os.MkdirAll(filepath.Join(outDir, "replays"), 0o755)
	path := filepath.Join(outDir, "replays", prop+"-"+sanitize(name)+".json")
	o := obs[0]
	for _, x := range obs {
		if x.Model != "" {
			o = x
			break
		}
	}
	rec := map[string]any{
		"property":      prop,
		"obligation":    name,
		"kind":          o.Kind,
		"result":        o.Result,
		"solver":        o.Solver,
		"event_trace":   o.Trace,
		"goal":          o.Goal,
		"solver_output": strings.TrimSpace(o.Raw),
		"instances":     len(obs),
	}
	if o.Model != "" {
		m := o.Model
		if len(m) > 20000 {
			m = m[:20000]
		}
		rec["solver_model"] = m
	}
	confirmed := false
	if doReplay {
		c := replayMemo[prop]
		if c == nil {
			c = &replayCache{}
			replayMemo[prop] = c
			c.found, c.all = searchFailingInput(e, prop)
			c.done = true
		}
		rec["failing_input_search"] = c.all
		if c.found != nil {
			confirmed = true
			rec["failing_input"] = map[string]any{"family": c.found.Family, "scenario": c.found.Failing, "observed_on_real_code": c.found.Violation,
				"how_to_rerun": fmt.Sprintf("/verif/replay.sh %s", path)}
		}
	}
	rec["failing_input_confirmed"] = confirmed
	b, _ := json.MarshalIndent(rec, "", " ")
	os.WriteFile(path, b, 0o644)
	return path, confirmed
}

// replayFile re-runs the scenario recorded in a replay file against repo.
func replayFile(repo, file string) int {
	data, err := os.ReadFile(file)
	if err != nil {
		fmt.Fprintln(os.Stderr, err)
		return 2
	}
	var rec struct {
		Property     string `json:"property"`
		Obligation   string `json:"obligation"`
		Result       string `json:"result"`
		SolverOutput string `json:"solver_output"`
		FailingInput *struct {
			Family   string          `json:"family"`
			Scenario json.RawMessage `json:"scenario"`
			Observed string          `json:"observed_on_real_code"`
		} `json:"failing_input"`
	}
	if err := json.Unmarshal(data, &rec); err != nil {
		fmt.Fprintln(os.Stderr, err)
		return 2
	}
	fmt.Printf("property %s, failed obligation %s (%s)\n", rec.Property, rec.Obligation, rec.Result)
	if rec.FailingInput == nil {
		fmt.Println("no failing input was recorded for this obligation (no-failing-input-found); solver output:")
		fmt.Println(rec.SolverOutput)
		return 0
	}
	fmt.Printf("recorded failing input (%s): %s\nrecorded observation: %s\n", rec.FailingInput.Family, rec.FailingInput.Scenario, rec.FailingInput.Observed)
	one := string(rec.FailingInput.Scenario)
	switch rec.FailingInput.Family {
	case "lifecycle", "flow", "batch":
	default:
		one = "" // seeded families re-run their whole (small) space
	}
	o := runHarness(repo, rec.FailingInput.Family, rec.Property, one)
	if o.Error != "" {
		fmt.Println("harness error:", o.Error)
		return 2
	}
	if o.Violation != "" {
		fmt.Printf("REPRODUCED on %s: %s\n", repo, o.Violation)
		return 1
	}
	fmt.Printf("not reproduced on %s (%d scenarios tried)\n", repo, o.Tried)
	return 0
}
