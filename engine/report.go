package main

// Reporting: console summary, evidence file, VIOLATION lines, known findings.

import (
	"encoding/json"
	"fmt"
	"os"
	"os/exec"
	"path/filepath"
	"sort"
	"strconv"
	"strings"
)

type knownFinding struct {
	Kind       string // "finding" | "fixed"
	Property   string
	Obligation string
	Rest       string
}

func loadKnownFindings(dir string) []knownFinding {
	data, err := os.ReadFile(filepath.Join(dir, "known_findings.txt"))
	if err != nil {
		return nil
	}
	var out []knownFinding
	for _, l := range strings.Split(string(data), "\n") {
		l = strings.TrimSpace(l)
		if l == "" || strings.HasPrefix(l, "#") {
			continue
		}
		var kf knownFinding
		if strings.HasPrefix(l, "finding:") {
			kf.Kind = "finding"
			l = strings.TrimSpace(strings.TrimPrefix(l, "finding:"))
		} else if strings.HasPrefix(l, "fixed:") {
			kf.Kind = "fixed"
			l = strings.TrimSpace(strings.TrimPrefix(l, "fixed:"))
		} else {
			continue
		}
		for _, f := range strings.Fields(l) {
			if strings.HasPrefix(f, "property=") {
				kf.Property = strings.TrimPrefix(f, "property=")
			}
			if strings.HasPrefix(f, "obligation=") {
				kf.Obligation = strings.TrimPrefix(f, "obligation=")
			}
		}
		kf.Rest = l
		out = append(out, kf)
	}
	return out
}

func reportLoadFailure(out, prop, tier string, err error) {
	if prop == "" {
		return
	}
	os.MkdirAll(filepath.Join(out, "replays"), 0o755)
	path := filepath.Join(out, "replays", prop+"-load.json")
	b, _ := json.MarshalIndent(map[string]any{"property": prop, "obligation": "load", "error": err.Error()}, "", " ")
	os.WriteFile(path, b, 0o644)
	fmt.Printf("VIOLATION property=%s replay=%s no-failing-input-found\n", prop, path)
}

func sanitize(s string) string {
	r := strings.NewReplacer("/", "_", "(", "", ")", "", "*", "", " ", "_", ":", "_", "#", "-", "[", "", "]", "", ",", "_", "<", "", ">", "", "$", "_", "=", "", "+", "p")
	return r.Replace(s)
}

func report(e *Engine, results []*funcResult, prop, tier, outDir string, verbose bool, dump string, isCheck bool, doReplay bool, wall float64) int {
	total, discharged := 0, 0
	bySolver := map[string]int{}
	var failed []*Oblig
	var unsupported []string
	trusted := map[string]bool{}
	assumed := map[string]bool{}
	var funcs []string
	var solverMs int64
	names := map[string]bool{}
	covers := 0
	glue := map[string][]string{}
	paths := 0
	for _, r := range results {
		if r == nil {
			continue
		}
		funcs = append(funcs, r.Name)
		for _, u := range r.Unsupported {
			unsupported = append(unsupported, r.Name+": "+u)
		}
		if r.VC != nil {
			for k := range r.VC.trusted {
				trusted[k] = true
			}
			for k := range r.VC.assumed {
				assumed[k] = true
			}
			paths += r.VC.paths
		}
		for k, v := range r.GlueKept {
			glue[k] = v
		}
		for _, o := range r.Obligs {
			if o.Kind == "cover" {
				covers++
				continue
			}
			total++
			names[o.Name] = true
			solverMs += o.Ms
			if o.Result == o.Expect {
				discharged++
				bySolver[o.Solver]++
			}
		}
		failed = append(failed, r.Failed...)
		if verbose {
			for _, o := range r.Obligs {
				if o.Solver != "z3-new(incremental)" && o.Solver != "" {
					fmt.Printf("    raced: %s -> %s via %s in %dms\n", o.Name, o.Result, o.Solver, o.Ms)
				}
			}
			fmt.Printf("  %-40s obligations=%d failed=%d paths=%d iter=%d %.2fs\n", r.Name, len(r.Obligs), len(r.Failed), func() int {
				if r.VC != nil {
					return r.VC.paths
				}
				return 0
			}(), r.Iter, r.Secs)
		}
	}
	if dump != "" {
		for _, r := range results {
			if r == nil || r.VC == nil {
				continue
			}
			for i, o := range r.Obligs {
				if o.Kind == "cover" || os.Getenv("FLYTVC_DUMP_ALL") != "" {
					os.MkdirAll(dump, 0o755)
					os.WriteFile(filepath.Join(dump, fmt.Sprintf("cover-%s-%d.smt2", sanitize(o.Name), i)), []byte(singleScript(r.VC.w.prelude(), r.VC.decls, o, false, false)), 0o644)
				}
			}
		}
	}
	// group failures by name
	failedNames := map[string][]*Oblig{}
	var order []string
	for _, o := range failed {
		if _, ok := failedNames[o.Name]; !ok {
			order = append(order, o.Name)
		}
		failedNames[o.Name] = append(failedNames[o.Name], o)
	}
	for _, u := range unsupported {
		n := "unverifiable:" + u
		order = append(order, n)
		fn := u
		if i := strings.Index(u, ": "); i >= 0 {
			fn = u[:i]
		}
		failedNames[n] = []*Oblig{{Name: n, Func: fn, Kind: "unsupported", Result: "unsupported"}}
	}
	// A function that is only a callee for this property (its contract carries tags, none of them this property)
	// reports its untagged obligations (panic freedom, frames, core clauses) under its own properties, not here.
	var notRelevant []string
	if prop != "" {
		var kept []string
		for _, n := range order {
			o := failedNames[n][0]
			base := o.Func
			if i := strings.Index(base, "+"); i >= 0 {
				base = base[:i]
			}
			ct := e.spec.Contracts[o.Func]
			if ct != nil && len(ct.Props) > 0 && !ct.Props[prop] && len(o.Tags) == 0 {
				notRelevant = append(notRelevant, n)
				continue
			}
			kept = append(kept, n)
		}
		order = kept
	}
	sort.Strings(order)
	label := prop
	if label == "" {
		label = "ALL"
	}
	fmt.Printf("flytvc %s tier=%s: functions=%d obligations=%d (distinct names %d) discharged=%d covers=%d paths=%d load=%.1fs wall=%.1fs\n",
		label, tier, len(funcs), total, len(names), discharged, covers, paths, e.loadSecs, wall)
	known := loadKnownFindings(outDir)
	exit := 0
	violations := 0
	var knownHit []string
	for _, n := range order {
		obs := failedNames[n]
		o := obs[0]
		// known finding?
		isKnown := false
		for _, kf := range known {
			if kf.Kind == "finding" && kf.Property == prop && kf.Obligation == n {
				isKnown = true
				fmt.Printf("KNOWN-FINDING: %s\n", kf.Rest)
				knownHit = append(knownHit, n)
			}
		}
		if isKnown {
			continue
		}
		violations++
		exit = 1
		if verbose || !isCheck {
			fmt.Printf("FAILED %s [%s via %s] instances=%d\n", n, o.Result, o.Solver, len(obs))
			if len(o.Trace) > 0 {
				fmt.Printf("    trace: %s\n", strings.Join(o.Trace, " ; "))
			}
			if o.Raw != "" {
				fmt.Printf("    solver: %s\n", o.Raw)
			}
		}
		if dump != "" && o.Func != "" {
			for _, r := range results {
				if r != nil && r.Name == o.Func && r.VC != nil {
					os.MkdirAll(dump, 0o755)
					os.WriteFile(filepath.Join(dump, sanitize(n)+".smt2"), []byte(singleScript(r.VC.w.prelude(), r.VC.decls, o, true, false)), 0o644)
				}
			}
		}
		if isCheck && prop != "" {
			path, confirmed := writeReplay(e, outDir, prop, n, obs, doReplay)
			suffix := ""
			if !confirmed {
				suffix = " no-failing-input-found"
			}
			fmt.Printf("VIOLATION property=%s replay=%s%s\n", prop, path, suffix)
		}
	}
	extra := map[string]any{}
	if len(notRelevant) > 0 {
		extra["failed_obligations_reported_under_other_properties"] = notRelevant
		if verbose {
			for _, n := range notRelevant {
				fmt.Printf("not reported here (belongs to the function's own properties): %s\n", n)
			}
		}
	}
	if tier == "thorough" {
		a, u, d := 0, 0, 0
		for _, r := range results {
			if r != nil {
				a, u, d = a+r.Agree, u+r.Unknown, d+r.Disagree
			}
		}
		extra["solver_cross_check"] = map[string]int{"second_opinions_unsat": a, "second_opinions_unknown_or_timeout": u, "disagreements": d}
	}
	if isCheck && prop != "" && tier == "thorough" {
		// (1) runtime cross-check: the replay harness must find no violating scenario on this tree when every obligation holds
		var fams []map[string]any
		for _, fam := range replayFamilies[prop] {
			o := runHarness(e.repo, fam, prop, "")
			fams = append(fams, map[string]any{"family": fam, "scenarios": o.Tried, "violation": o.Violation, "error": o.Error})
			if o.Violation != "" && exit == 0 {
				// the real code violates the property on a concrete input although all obligations were discharged
				os.MkdirAll(filepath.Join(outDir, "replays"), 0o755)
				path := filepath.Join(outDir, "replays", prop+"-runtime-oracle-"+fam+".json")
				b, _ := json.MarshalIndent(map[string]any{"property": prop, "obligation": "runtime-oracle:" + fam, "failing_input": map[string]any{"family": fam, "scenario": o.Failing, "observed_on_real_code": o.Violation}, "failing_input_confirmed": true}, "", " ")
				os.WriteFile(path, b, 0o644)
				fmt.Printf("VIOLATION property=%s replay=%s\n", prop, path)
				exit = 1
				violations++
			}
		}
		extra["runtime_cross_check"] = fams
		// (2) must-fail corpus of this property (tests the machinery, not the repository: never affects the verdict)
		if _, err := os.Stat(filepath.Join(outDir, "tools", "selftest.py")); err == nil && exit == 0 {
			cmd := exec.Command("python3", filepath.Join(outDir, "tools", "selftest.py"), "--property", prop, "--repo", e.repo)
			out, _ := cmd.CombinedOutput()
			lines := strings.Split(strings.TrimSpace(string(out)), "\n")
			var notOK []string
			for _, l := range lines {
				if strings.HasPrefix(l, "MISSED") || strings.HasPrefix(l, "FALSE-ALARM") {
					notOK = append(notOK, strings.Join(strings.Fields(l)[:2], " "))
				}
			}
			extra["must_fail_corpus"] = map[string]any{"summary": lines[len(lines)-1], "not_ok": notOK}
			fmt.Printf("must-fail corpus for %s: %s\n", prop, lines[len(lines)-1])
		}
	}
	if isCheck && prop != "" {
		evidenceExtra = extra
		writeEvidence(e, outDir, prop, tier, funcs, total, discharged, len(names), covers, paths, bySolver, trusted, assumed, glue, results, violations, knownHit, solverMs, wall)
	}
	return exit
}

var evidenceExtra map[string]any

func mergeMaps(a, b map[string]any) map[string]any {
	for k, v := range b {
		a[k] = v
	}
	return a
}

func writeEvidence(e *Engine, outDir, prop, tier string, funcs []string, total, discharged, distinct, covers, paths int, bySolver map[string]int,
	trusted, assumed map[string]bool, glue map[string][]string, results []*funcResult, violations int, knownHit []string, solverMs int64, wall float64) {
	var tb []string
	for k := range trusted {
		tb = append(tb, k)
	}
	sort.Strings(tb)
	tb = append(tb, "T11 go/packages + go/ssa (x/tools v0.29.0), flytvc's SSA semantics, z3 4.8.12 / z3 5.1.0 / cvc5 1.0.3",
		"A1 user callbacks do not reconfigure a running node/flow and do not mutate the items of a running batch",
		"integers are mathematical with machine ranges as assumptions; arithmetic that leaves the range yields an unspecified in-range value",
		"floats and strings are uninterpreted sorts; numeric conversions are uninterpreted functions (identity on in-range integers)")
	var as []string
	for k := range assumed {
		as = append(as, k)
	}
	sort.Strings(as)
	// samples: a few obligations with their sizes
	var samples []any
	seen := map[string]bool{}
	for _, r := range results {
		if r == nil {
			continue
		}
		n := 0
		for _, o := range r.Obligs {
			if o.Kind == "cover" || seen[o.Name] {
				continue
			}
			seen[o.Name] = true
			if n < 3 {
				goal := o.Goal
				if len(goal) > 300 {
					goal = goal[:300] + "..."
				}
				samples = append(samples, map[string]any{"obligation": o.Name, "kind": o.Kind, "result": o.Result, "solver": o.Solver,
					"path_condition_size": len(o.PC), "goal": goal, "event_trace": o.Trace})
				n++
			}
		}
	}
	var notUnder []string
	for n := range e.funcs {
		if _, ok := e.spec.Contracts[n]; !ok {
			notUnder = append(notUnder, n)
		}
	}
	sort.Strings(notUnder)
	lemmas := map[string][]string{}
	coverStats := map[string]int{}
	for _, r := range results {
		if r == nil {
			continue
		}
		if r.VC != nil {
			for l, cs := range r.VC.lemmaClauses {
				seen := map[string]bool{}
				for _, c := range cs {
					if !seen[c] {
						seen[c] = true
						lemmas[l] = append(lemmas[l], r.Name+": "+c)
					}
				}
			}
		}
		for _, o := range r.Obligs {
			if o.Kind == "cover" {
				switch o.Result {
				case "sat":
					coverStats["reachable (model found)"]++
				case "unsat":
					coverStats["infeasible path"]++
				default:
					coverStats["not refuted (unknown)"]++
				}
			}
		}
	}
	perFunc := map[string]any{}
	for _, r := range results {
		if r == nil {
			continue
		}
		perFunc[r.Name] = map[string]any{"obligations": len(r.Obligs), "failed": len(r.Failed), "glue_iterations": r.Iter, "seconds": r.Secs, "unverifiable": r.Unsupported}
	}
	seed, _ := strconv.Atoi(os.Getenv("VERIF_SEED"))
	cov := map[string]any{}
	for k, v := range evidenceExtra {
		cov[k] = v
	}
	ev := map[string]any{
		"property_id": prop,
		"tier":        tier,
		"seed":        seed,
		"level":       "proof",
		"wall_s":      wall,
		"violations":  violations,
		"coverage": mergeMaps(cov, map[string]any{
			"obligations":               total,
			"discharged":                discharged,
			"distinct_obligation_names": distinct,
			"cover_checks":              covers,
			"symbolic_paths":            paths,
			"checker_cmd":               "/verif/bin/flytvc check -property " + prop + " -tier " + tier,
			"trusted_base":              tb,
			"functions_under_contract":  funcs,
			"assumed_callee_contracts":  as,
			"discharged_by_solver":      bySolver,
			"solver_ms":                 solverMs,
			"solver_time_limit_scale_for_machine_load": loadScale,
			"glue_equalities_inferred":  glue,
			"per_function":              perFunc,
			"known_findings_hit":        knownHit,
			"clauses_justified_by_lemma_not_checked_on_the_body": lemmas,
			"cover_check_results":       coverStats,
			"package_functions_without_contract": notUnder,
			"samples":                   samples,
			"explanation":               "every obligation is generated from go/ssa of /repo's working tree on this run and discharged by SMT; obligations counted per symbolic path",
		}),
		"assumptions": tb,
	}
	os.MkdirAll(filepath.Join(outDir, "evidence"), 0o755)
	b, _ := json.MarshalIndent(ev, "", " ")
	os.WriteFile(filepath.Join(outDir, "evidence", prop+".json"), b, 0o644)
}
