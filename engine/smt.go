package main

// SMT-LIB term helpers, the sort mapping for Go types and the fixed prelude.

import (
	"fmt"
	"go/types"
	"sort"
	"strings"
)

// V is a symbolic Go value: an SMT term with its sort and (when known) Go type.
type V struct {
	T  string
	S  string
	GT types.Type
}

const (
	SInt   = "Int"
	SBool  = "Bool"
	SStr   = "Str"
	SFloat = "Float"
	SIface = "Iface"
	SSlice = "Slice"
	SType  = "Type"
	SBox   = "Box"
)

func app(f string, args ...string) string {
	if len(args) == 0 {
		return f
	}
	return "(" + f + " " + strings.Join(args, " ") + ")"
}
func and(xs ...string) string {
	var ys []string
	for _, x := range xs {
		if x == "true" || x == "" {
			continue
		}
		ys = append(ys, x)
	}
	if len(ys) == 0 {
		return "true"
	}
	if len(ys) == 1 {
		return ys[0]
	}
	return app("and", ys...)
}
func or(xs ...string) string {
	if len(xs) == 0 {
		return "false"
	}
	if len(xs) == 1 {
		return xs[0]
	}
	return app("or", xs...)
}
func not(x string) string {
	if x == "true" {
		return "false"
	}
	if x == "false" {
		return "true"
	}
	return app("not", x)
}
func eq(a, b string) string      { return app("=", a, b) }
func implies(a, b string) string { return app("=>", a, b) }
func ite(c, a, b string) string  { return app("ite", c, a, b) }
func sel(a, i string) string     { return app("select", a, i) }
func sto(a, i, v string) string  { return app("store", a, i, v) }
func intLit(n int64) string {
	if n < 0 {
		return fmt.Sprintf("(- %d)", -n)
	}
	return fmt.Sprint(n)
}

// arraySort returns "(Array K V)".
func arraySort(k, v string) string { return "(Array " + k + " " + v + ")" }

// sortName makes an identifier-safe name from a sort.
func sortName(s string) string {
	r := strings.NewReplacer("(", "", ")", "", " ", "_")
	return r.Replace(s)
}

// structInfo describes a struct type used as a *value* (SMT datatype).
type structInfo struct {
	Name   string
	Fields []string
	Sorts  []string
	Types  []types.Type
}

// World holds everything that is global to one verification run: the type
// constants, struct datatypes and string literals discovered so far.
type World struct {
	typeConsts map[string]types.Type // SMT const name -> Go type
	typeOrder  []string
	strConsts  map[string]string // literal -> const name
	strOrder   []string
	structs    map[string]*structInfo
	structOrd  []string
	ifaces     map[string]*types.Interface // name -> interface (for implements)
	ifaceOrd   []string
	pkg        *types.Package
	floatConst map[string]string
	floatOrd   []string
	methods    map[string]bool // method names used by hasMethod
	methodOrd  []string
	extraDecls []string // uninterpreted spec functions, conversion symbols
	extraSeen  map[string]bool
}

func newWorld(pkg *types.Package) *World {
	return &World{typeConsts: map[string]types.Type{}, strConsts: map[string]string{}, structs: map[string]*structInfo{},
		ifaces: map[string]*types.Interface{}, pkg: pkg, floatConst: map[string]string{}, extraSeen: map[string]bool{}, methods: map[string]bool{}}
}

func (w *World) declare(key, decl string) {
	if w.extraSeen[key] {
		return
	}
	w.extraSeen[key] = true
	w.extraDecls = append(w.extraDecls, decl)
}

func mangle(s string) string {
	var b strings.Builder
	for _, c := range s {
		switch {
		case c >= 'a' && c <= 'z', c >= 'A' && c <= 'Z', c >= '0' && c <= '9':
			b.WriteRune(c)
		case c == '*':
			b.WriteString("P")
		case c == '[':
			b.WriteString("L")
		case c == ']':
			b.WriteString("J")
		default:
			b.WriteString("_")
		}
	}
	return b.String()
}

func (w *World) typeStr(t types.Type) string {
	return types.TypeString(t, func(p *types.Package) string {
		if p == w.pkg {
			return ""
		}
		return p.Name()
	})
}

// typeConst returns the SMT constant naming a concrete dynamic type.
func (w *World) typeConst(t types.Type) string {
	n := "T_" + mangle(w.typeStr(t))
	if old, ok := w.typeConsts[n]; ok {
		if !types.Identical(old, t) {
			n = n + fmt.Sprintf("_%d", len(w.typeConsts))
		} else {
			return n
		}
	}
	w.typeConsts[n] = t
	w.typeOrder = append(w.typeOrder, n)
	return n
}

func (w *World) ifaceConst(name string, it *types.Interface) string {
	n := "I_" + mangle(name)
	if _, ok := w.ifaces[n]; !ok {
		w.ifaces[n] = it
		w.ifaceOrd = append(w.ifaceOrd, n)
		for i := 0; i < it.NumMethods(); i++ {
			w.methodPred(it.Method(i).Name())
		}
	}
	return n
}

// methodPred names the predicate "the dynamic type has an (exported or package-level) method with this name".
func (w *World) methodPred(name string) string {
	if !w.methods[name] {
		w.methods[name] = true
		w.methodOrd = append(w.methodOrd, name)
	}
	return "hasMethod_" + name
}

func (w *World) strConst(lit string) string {
	if c, ok := w.strConsts[lit]; ok {
		return c
	}
	c := fmt.Sprintf("str_%d", len(w.strConsts))
	if lit == "" {
		c = "str_empty"
	}
	w.strConsts[lit] = c
	w.strOrder = append(w.strOrder, lit)
	return c
}

func (w *World) floatLit(lit string) string {
	if c, ok := w.floatConst[lit]; ok {
		return c
	}
	c := fmt.Sprintf("flt_%d", len(w.floatConst))
	w.floatConst[lit] = c
	w.floatOrd = append(w.floatOrd, lit)
	return c
}

// sortOf maps a Go type to its SMT sort.
func (w *World) sortOf(t types.Type) string {
	switch u := t.Underlying().(type) {
	case *types.Basic:
		switch {
		case u.Info()&types.IsInteger != 0:
			return SInt
		case u.Info()&types.IsBoolean != 0:
			return SBool
		case u.Info()&types.IsString != 0:
			return SStr
		case u.Info()&types.IsFloat != 0:
			return SFloat
		case u.Kind() == types.UntypedNil:
			return SIface
		case u.Kind() == types.UnsafePointer:
			return SInt
		}
	case *types.Interface:
		return SIface
	case *types.Pointer, *types.Map, *types.Chan, *types.Signature:
		return SInt
	case *types.Slice:
		return SSlice
	case *types.Struct:
		return w.structSort(t)
	case *types.Array:
		return arraySort(SInt, w.sortOf(u.Elem()))
	case *types.Tuple:
		return "Tuple"
	}
	return "Opaque"
}

func (w *World) structSort(t types.Type) string {
	name := "S_" + mangle(w.typeStr(t))
	if _, ok := w.structs[name]; ok {
		return name
	}
	st := t.Underlying().(*types.Struct)
	si := &structInfo{Name: name}
	w.structs[name] = si
	for i := 0; i < st.NumFields(); i++ {
		f := st.Field(i)
		si.Fields = append(si.Fields, f.Name())
		si.Types = append(si.Types, f.Type())
		si.Sorts = append(si.Sorts, w.sortOf(f.Type()))
	}
	w.structOrd = append(w.structOrd, name)
	return name
}

func (w *World) structAcc(sortName string, i int) string {
	si := w.structs[sortName]
	return fmt.Sprintf("%s_%s", sortName, si.Fields[i])
}

// zero value term of a sort.
func (w *World) zero(s string) string {
	switch s {
	case SInt:
		return "0"
	case SBool:
		return "false"
	case SStr:
		return "str_empty"
	case SFloat:
		return "flt_zero"
	case SIface:
		return "nilI"
	case SSlice:
		return "(mkSlice 0 0 0 0)"
	}
	if si, ok := w.structs[s]; ok {
		var a []string
		for _, fs := range si.Sorts {
			a = append(a, w.zero(fs))
		}
		if len(a) == 0 {
			return "mk_" + s
		}
		return app("mk_"+s, a...)
	}
	if strings.HasPrefix(s, "(Array ") {
		// (Array K V)
		k, v := splitArraySort(s)
		_ = k
		return "((as const " + s + ") " + w.zero(v) + ")"
	}
	return "zero_" + sortName(s)
}

func splitArraySort(s string) (string, string) {
	inner := strings.TrimSuffix(strings.TrimPrefix(s, "(Array "), ")")
	depth := 0
	for i, c := range inner {
		if c == '(' {
			depth++
		}
		if c == ')' {
			depth--
		}
		if c == ' ' && depth == 0 {
			return inner[:i], inner[i+1:]
		}
	}
	return inner, ""
}

// boxable sorts: payload constructors of the Box datatype.
var boxSorts = []string{SInt, SBool, SStr, SFloat, SSlice}

func boxCtor(s string) string   { return "b" + sortName(s) }
func unboxSel(s string) string  { return "u" + sortName(s) }

// intRange returns the range assumption for an integer Go type.
func intRange(t types.Type, x string) string {
	b, ok := t.Underlying().(*types.Basic)
	if !ok || b.Info()&types.IsInteger == 0 {
		return "true"
	}
	lo, hi := "", ""
	switch b.Kind() {
	case types.Int8:
		lo, hi = "(- 128)", "127"
	case types.Int16:
		lo, hi = "(- 32768)", "32767"
	case types.Int32:
		lo, hi = "(- 2147483648)", "2147483647"
	case types.Int, types.Int64:
		lo, hi = "(- 9223372036854775808)", "9223372036854775807"
	case types.Uint8:
		lo, hi = "0", "255"
	case types.Uint16:
		lo, hi = "0", "65535"
	case types.Uint32:
		lo, hi = "0", "4294967295"
	case types.Uint, types.Uint64, types.Uintptr:
		lo, hi = "0", "18446744073709551615"
	default:
		return "true"
	}
	return and(app("<=", lo, x), app("<=", x, hi))
}

// prelude renders all global declarations. Must be called after symbolic
// execution has registered every type/string/struct it needs.
func (w *World) prelude() string {
	var b strings.Builder
	b.WriteString("(set-logic ALL)\n")
	b.WriteString("(declare-sort Type 0)\n(declare-sort Str 0)\n(declare-sort Float 0)\n(declare-sort Opaque 0)\n")
	// mutually recursive datatypes: Iface, Box, struct values
	var names, bodies []string
	names = append(names, "(Iface 0)", "(Box 0)", "(Slice 0)")
	bodies = append(bodies, "((nilI) (mkI (typ Type) (pay Box)))")
	box := "("
	for _, s := range boxSorts {
		box += fmt.Sprintf("(%s (%s %s)) ", boxCtor(s), unboxSel(s), s)
	}
	box += "(bIface (uIface Iface)) "
	for _, sn := range w.structOrd {
		if len(w.structs[sn].Fields) == 0 || !w.structBoxable(sn) {
			continue
		}
		box += fmt.Sprintf("(%s (%s %s)) ", boxCtor(sn), unboxSel(sn), sn)
	}
	box += "(bOpaque (uOpaque Int)))"
	bodies = append(bodies, box)
	bodies = append(bodies, "((mkSlice (sarr Int) (soff Int) (slen Int) (scap Int)))")
	for _, sn := range w.structOrd {
		si := w.structs[sn]
		if !w.structBoxable(sn) {
			continue
		}
		names = append(names, "("+sn+" 0)")
		body := "((mk_" + sn
		for i, f := range si.Fields {
			body += fmt.Sprintf(" (%s_%s %s)", sn, f, si.Sorts[i])
		}
		body += "))"
		bodies = append(bodies, body)
	}
	b.WriteString("(declare-datatypes (" + strings.Join(names, " ") + ") (" + strings.Join(bodies, "\n  ") + "))\n")
	b.WriteString("(declare-const flt_zero Float)\n")
	// strings
	b.WriteString("(declare-const str_empty Str)\n")
	var strs []string
	strs = append(strs, "str_empty")
	for _, lit := range w.strOrder {
		c := w.strConsts[lit]
		if c != "str_empty" {
			b.WriteString(fmt.Sprintf("(declare-const %s Str) ; %q\n", c, lit))
			strs = append(strs, c)
		}
	}
	if len(strs) > 1 {
		b.WriteString("(assert (distinct " + strings.Join(strs, " ") + "))\n")
	}
	for _, lit := range w.floatOrd {
		b.WriteString(fmt.Sprintf("(declare-const %s Float) ; %s\n", w.floatConst[lit], lit))
	}
	// types
	for _, n := range w.typeOrder {
		b.WriteString(fmt.Sprintf("(declare-const %s Type)\n", n))
	}
	if len(w.typeOrder) > 1 {
		b.WriteString("(assert (distinct " + strings.Join(w.typeOrder, " ") + "))\n")
	}
	b.WriteString("(declare-sort IfaceName 0)\n(declare-fun implements (Type IfaceName) Bool)\n")
	b.WriteString("(declare-fun kindOf (Type) Int)\n(declare-fun comparableT (Type) Bool)\n(declare-fun elemT (Type) Type)\n(declare-fun exactEqT (Type) Bool)\n")
	for _, n := range w.ifaceOrd {
		b.WriteString(fmt.Sprintf("(declare-const %s IfaceName)\n", n))
	}
	// method predicates: an interface is satisfied exactly by the types that have all its methods
	for _, m := range w.methodOrd {
		b.WriteString(fmt.Sprintf("(declare-fun hasMethod_%s (Type) Bool)\n", m))
	}
	for _, in := range w.ifaceOrd {
		it := w.ifaces[in]
		if it.NumMethods() == 0 {
			continue
		}
		var ms []string
		for i := 0; i < it.NumMethods(); i++ {
			ms = append(ms, fmt.Sprintf("(hasMethod_%s t)", it.Method(i).Name()))
		}
		b.WriteString(fmt.Sprintf("(assert (forall ((t Type)) (! (= (implements t %s) %s) :pattern ((implements t %s)))))\n", in, and(ms...), in))
	}
	for _, m := range w.methodOrd {
		for _, tn := range w.typeOrder {
			t := w.typeConsts[tn]
			has := false
			ms := types.NewMethodSet(t)
			for i := 0; i < ms.Len(); i++ {
				if ms.At(i).Obj().Name() == m {
					has = true
				}
			}
			if has {
				b.WriteString(fmt.Sprintf("(assert (hasMethod_%s %s))\n", m, tn))
			} else {
				b.WriteString(fmt.Sprintf("(assert (not (hasMethod_%s %s)))\n", m, tn))
			}
		}
	}
	// implements facts for known types
	for _, in := range w.ifaceOrd {
		it := w.ifaces[in]
		for _, tn := range w.typeOrder {
			t := w.typeConsts[tn]
			if types.Implements(t, it) {
				b.WriteString(fmt.Sprintf("(assert (implements %s %s))\n", tn, in))
			} else {
				b.WriteString(fmt.Sprintf("(assert (not (implements %s %s)))\n", tn, in))
			}
		}
	}
	// interface embedding: implements(t, I) => implements(t, J) when I's method set includes J's
	for _, a := range w.ifaceOrd {
		for _, c := range w.ifaceOrd {
			if a != c && types.Implements(w.ifaces[a], w.ifaces[c]) {
				b.WriteString(fmt.Sprintf("(assert (forall ((t Type)) (! (=> (implements t %s) (implements t %s)) :pattern ((implements t %s)))))\n", a, c, a))
			}
		}
	}
	// kind / comparable facts
	for _, tn := range w.typeOrder {
		t := w.typeConsts[tn]
		b.WriteString(fmt.Sprintf("(assert (= (kindOf %s) %d))\n", tn, reflectKind(t)))
		if types.Comparable(t) && !hasInterfaceInside(t) {
			b.WriteString(fmt.Sprintf("(assert (comparableT %s))\n", tn))
		} else if !types.Comparable(t) {
			b.WriteString(fmt.Sprintf("(assert (not (comparableT %s)))\n", tn))
		}
		if exactEq(t) {
			b.WriteString(fmt.Sprintf("(assert (exactEqT %s))\n", tn))
		}
		if p, ok := t.Underlying().(*types.Pointer); ok {
			if en, ok := w.lookupTypeConst(p.Elem()); ok {
				b.WriteString(fmt.Sprintf("(assert (= (elemT %s) %s))\n", tn, en))
			}
		}
	}
	// errors (T9)
	b.WriteString(`(declare-fun Is (Iface Iface) Bool)
(declare-fun wraps (Iface Iface) Bool)
(assert (forall ((e Iface)) (! (Is e e) :pattern ((Is e e)))))
(assert (forall ((r Iface) (m Iface) (e Iface)) (! (=> (and (wraps r m) (Is m e)) (Is r e)) :pattern ((wraps r m) (Is m e)))))
(assert (forall ((r Iface) (m Iface)) (! (=> (wraps r m) (Is r m)) :pattern ((wraps r m)))))
`)
	sort.Strings(nil)
	for _, d := range w.extraDecls {
		b.WriteString(d + "\n")
	}
	return b.String()
}

func (w *World) lookupTypeConst(t types.Type) (string, bool) {
	for _, n := range w.typeOrder {
		if types.Identical(w.typeConsts[n], t) {
			return n, true
		}
	}
	return "", false
}

// structBoxable: the struct can be an SMT datatype (all field sorts are first-order sorts we declare).
func (w *World) structBoxable(sn string) bool {
	for _, s := range w.structs[sn].Sorts {
		if s == "Tuple" || s == "Opaque" {
			return false
		}
		if strings.HasPrefix(s, "S_") && !w.structBoxable(s) {
			return false
		}
	}
	return true
}

func hasInterfaceInside(t types.Type) bool {
	switch u := t.Underlying().(type) {
	case *types.Interface:
		return true
	case *types.Struct:
		for i := 0; i < u.NumFields(); i++ {
			if hasInterfaceInside(u.Field(i).Type()) {
				return true
			}
		}
	case *types.Array:
		return hasInterfaceInside(u.Elem())
	}
	return false
}

// reflect.Kind numbering.
func reflectKind(t types.Type) int {
	switch u := t.Underlying().(type) {
	case *types.Basic:
		switch u.Kind() {
		case types.Bool:
			return 1
		case types.Int:
			return 2
		case types.Int8:
			return 3
		case types.Int16:
			return 4
		case types.Int32:
			return 5
		case types.Int64:
			return 6
		case types.Uint:
			return 7
		case types.Uint8:
			return 8
		case types.Uint16:
			return 9
		case types.Uint32:
			return 10
		case types.Uint64:
			return 11
		case types.Uintptr:
			return 12
		case types.Float32:
			return 13
		case types.Float64:
			return 14
		case types.Complex64:
			return 15
		case types.Complex128:
			return 16
		case types.String:
			return 24
		case types.UnsafePointer:
			return 26
		}
	case *types.Array:
		return 17
	case *types.Chan:
		return 18
	case *types.Signature:
		return 19
	case *types.Interface:
		return 20
	case *types.Map:
		return 21
	case *types.Pointer:
		return 22
	case *types.Slice:
		return 23
	case *types.Struct:
		return 25
	}
	return 0
}

// userMapType is map[string]any: the contents of a SharedStore (user-visible state).
var userMapType = types.NewMap(types.Typ[types.String], types.NewInterfaceType(nil, nil))

// canonName: a type name that is the same for `any` and `interface{}` and for aliases.
func (w *World) canonName(t types.Type) string {
	t = types.Unalias(t)
	if it, ok := t.Underlying().(*types.Interface); ok && it.NumMethods() == 0 {
		if _, named := t.(*types.Named); !named {
			return "any"
		}
	}
	return w.typeStr(t)
}

// exactEq: == on values of this type is structural equality of the payload (no floats, no interfaces inside).
func exactEq(t types.Type) bool {
	switch u := t.Underlying().(type) {
	case *types.Basic:
		return u.Info()&(types.IsFloat|types.IsComplex) == 0
	case *types.Pointer, *types.Chan:
		return true
	case *types.Struct:
		for i := 0; i < u.NumFields(); i++ {
			if !exactEq(u.Field(i).Type()) {
				return false
			}
		}
		return true
	case *types.Array:
		return exactEq(u.Elem())
	}
	return false
}
