package main

// Discharging obligations: one incremental z3-new script per chunk, failures
// re-checked individually by racing z3-new, z3 4.8.12 and cvc5.

import (
	"runtime"
	"os"
	"bytes"
	"context"
	"fmt"
	"os/exec"
	"strings"
	"sync"
	"time"
)

type solverCfg struct {
	timeoutMs int
	workers   int
	thorough  bool
}

// loadScale: solver time limits are wall-clock; on a machine that is busy with other work (several checks
// running side by side) they are stretched by the ratio of runnable tasks to cores, so that an obligation
// that needs 0.3 s of CPU is not reported as undecided because it got a tenth of a core.
var loadScale = func() int {
	b, err := os.ReadFile("/proc/loadavg")
	if err != nil {
		return 1
	}
	var l1 float64
	fmt.Sscanf(string(b), "%f", &l1)
	n := float64(runtime.NumCPU())
	f := int(l1/n + 0.5)
	if f < 1 {
		f = 1
	}
	if f > 8 {
		f = 8
	}
	return f
}()

// shortScale: the stretch applied to the short limits (glue candidates, incremental pass, cover searches), whose
// expiry is the normal outcome for wrong candidates: kept small so that a busy machine does not multiply the run time.
var shortScale = func() int {
	if loadScale > 3 {
		return 3
	}
	return loadScale
}()

// buildScript renders a chunk of obligations as one incremental script.
func buildScript(prelude string, decls []string, obs []*Oblig, timeoutMs int) string {
	var b bytes.Buffer
	b.WriteString(fmt.Sprintf("(set-option :timeout %d)\n", timeoutMs))
	b.WriteString(prelude)
	for _, d := range decls {
		b.WriteString(d)
		b.WriteByte('\n')
	}
	// stack of asserted path-condition entries; each level is one push
	var stack []string
	for _, o := range obs {
		// common prefix
		n := 0
		for n < len(stack) && n < len(o.PC) && stack[n] == o.PC[n] {
			n++
		}
		if len(stack) > n {
			b.WriteString(fmt.Sprintf("(pop %d)\n", len(stack)-n))
			stack = stack[:n]
		}
		for _, a := range o.PC[n:] {
			b.WriteString("(push 1)\n(assert ")
			b.WriteString(a)
			b.WriteString(")\n")
			stack = append(stack, a)
		}
		b.WriteString("(push 1)\n")
		if o.Expect != "sat" {
			b.WriteString("(assert (not ")
			b.WriteString(o.Goal)
			b.WriteString("))\n")
		}
		b.WriteString("(check-sat)\n(pop 1)\n")
	}
	return b.String()
}

func singleScript(prelude string, decls []string, o *Oblig, model bool, forCvc5 bool) string {
	var b bytes.Buffer
	if model {
		b.WriteString("(set-option :produce-models true)\n")
	}
	b.WriteString(prelude)
	for _, d := range decls {
		b.WriteString(d)
		b.WriteByte('\n')
	}
	for _, a := range o.PC {
		b.WriteString("(assert ")
		b.WriteString(a)
		b.WriteString(")\n")
	}
	if o.Expect != "sat" {
		b.WriteString("(assert (not ")
		b.WriteString(o.Goal)
		b.WriteString("))\n")
	}
	b.WriteString("(check-sat)\n")
	if model {
		b.WriteString("(get-model)\n")
	}
	return b.String()
}

func runSolver(ctx context.Context, name string, args []string, script string) (string, error) {
	cmd := exec.CommandContext(ctx, name, args...)
	cmd.Stdin = strings.NewReader(script)
	var out bytes.Buffer
	cmd.Stdout = &out
	cmd.Stderr = &out
	err := cmd.Run()
	return out.String(), err
}

func firstLine(s string) string {
	s = strings.TrimSpace(s)
	if i := strings.Index(s, "\n"); i >= 0 {
		return strings.TrimSpace(s[:i])
	}
	return s
}

// solveAll discharges the obligations of one function.
func (vc *FuncVC) solveAll(all []*Oblig, cfg solverCfg) {
	// cover checks (expected sat) are searched with a short timeout of their own:
	// finding models under quantifiers is slow and "unknown" only means "not refuted"
	var obs, covers []*Oblig
	for _, o := range all {
		if o.Expect == "sat" {
			covers = append(covers, o)
		} else {
			obs = append(obs, o)
		}
	}
	if len(covers) > 0 {
		// raced directly (no incremental phase): one model search per cover, all in parallel
		ccfg := cfg
		ccfg.timeoutMs = 1500 * shortScale
		ccfg.thorough = false
		prelude := vc.w.prelude()
		var wg sync.WaitGroup
		sem := make(chan struct{}, cfg.workers)
		for _, o := range covers {
			o := o
			wg.Add(1)
			go func() {
				defer wg.Done()
				sem <- struct{}{}
				defer func() { <-sem }()
				vc.race(prelude, vc.decls, o, ccfg)
			}()
		}
		wg.Wait()
	}
	vc.solveSet(obs, cfg)
}

// crossCheck (thorough tier): every discharged obligation is re-checked, alone, by the two
// other solvers; a `sat` answer from either is a disagreement and fails the obligation.
func (vc *FuncVC) crossCheck(obs []*Oblig, cfg solverCfg) (agree, unknown, disagree int) {
	prelude := vc.w.prelude()
	type res struct{ a, u, d int }
	out := make(chan res, len(obs))
	sem := make(chan struct{}, cfg.workers)
	n := 0
	for _, o := range obs {
		if o.Expect == "sat" || o.Result != "unsat" {
			continue
		}
		n++
		o := o
		go func() {
			sem <- struct{}{}
			defer func() { <-sem }()
			r := res{}
			script := singleScript(prelude, vc.decls, o, false, false)
			for _, j := range [][]string{{"z3", "-in", "-T:20"}, {"cvc5", "--lang=smt2", "--tlimit=20000"}} {
				ctx, cancel := context.WithTimeout(context.Background(), 25*time.Second)
				outp, _ := runSolver(ctx, j[0], j[1:], script)
				cancel()
				switch firstLine(outp) {
				case "unsat":
					r.a++
				case "sat":
					r.d++
					o.Result, o.Solver, o.Raw = "sat", j[0]+"(cross-check)", "solvers disagree: z3-new answered unsat"
				default:
					r.u++
				}
			}
			out <- r
		}()
	}
	for i := 0; i < n; i++ {
		r := <-out
		agree += r.a
		unknown += r.u
		disagree += r.d
	}
	return
}

func (vc *FuncVC) solveSet(obs []*Oblig, cfg solverCfg) {
	if len(obs) == 0 {
		return
	}
	tStart := time.Now()
	prelude := vc.w.prelude()
	decls := vc.decls
	// chunks of contiguous obligations (they share path-condition prefixes)
	nchunks := cfg.workers
	if nchunks > len(obs)/8+1 {
		nchunks = len(obs)/8 + 1
	}
	size := (len(obs) + nchunks - 1) / nchunks
	var wg sync.WaitGroup
	sem := make(chan struct{}, cfg.workers)
	for c := 0; c < nchunks; c++ {
		lo, hi := c*size, (c+1)*size
		if hi > len(obs) {
			hi = len(obs)
		}
		if lo >= hi {
			break
		}
		chunk := obs[lo:hi]
		wg.Add(1)
		go func() {
			defer wg.Done()
			sem <- struct{}{}
			defer func() { <-sem }()
			incTimeout := cfg.timeoutMs
			if incTimeout > 2500*shortScale {
				incTimeout = 2500 * shortScale // whatever the incremental pass cannot settle quickly is re-raced one by one with the full timeout
			}
			script := buildScript(prelude, decls, chunk, incTimeout)
			t0 := time.Now()
			ctx, cancel := context.WithTimeout(context.Background(), time.Duration(cfg.timeoutMs*len(chunk)+30000)*time.Millisecond)
			out, _ := runSolver(ctx, "z3-new", []string{"-in"}, script)
			cancel()
			ms := time.Since(t0).Milliseconds()
			lines := strings.Split(strings.TrimSpace(out), "\n")
			k := 0
			for _, o := range chunk {
				res := "error"
				for k < len(lines) {
					l := strings.TrimSpace(lines[k])
					k++
					if l == "sat" || l == "unsat" || l == "unknown" || l == "timeout" {
						res = l
						break
					}
					if strings.HasPrefix(l, "(error") {
						o.Raw += l + "\n"
					}
				}
				o.Result = res
				o.Solver = "z3-new(incremental)"
				o.Ms = ms / int64(len(chunk))
			}
		}()
	}
	wg.Wait()
	if os.Getenv("FLYTVC_TIMING") != "" {
		n := 0
		for _, o := range obs {
			if o.Result != o.Expect {
				n++
			}
		}
		fmt.Fprintf(os.Stderr, "    [timing] %s: %d obligations in %d chunks, %d to re-race, incremental phase %.2fs\n", vc.name, len(obs), nchunks, n, time.Since(tStart).Seconds())
	}
	// re-check everything that did not come back as expected, individually, racing three solvers
	var redo []*Oblig
	for _, o := range obs {
		if o.Result != o.Expect {
			if o.Expect == "sat" && o.Result == "unsat" {
				continue // infeasible path: definitive
			}
			redo = append(redo, o)
		}
	}
	var wg2 sync.WaitGroup
	for _, o := range redo {
		o := o
		wg2.Add(1)
		go func() {
			defer wg2.Done()
			sem <- struct{}{}
			defer func() { <-sem }()
			vc.race(prelude, decls, o, cfg)
		}()
	}
	wg2.Wait()
}

type raceResult struct {
	solver, res, out string
	ms             int64
}

// race runs the three solvers on one obligation; the first definitive answer wins.
func (vc *FuncVC) race(prelude string, decls []string, o *Oblig, cfg solverCfg) {
	ctx, cancel := context.WithTimeout(context.Background(), time.Duration(cfg.timeoutMs+2000)*time.Millisecond)
	defer cancel()
	sec := fmt.Sprint((cfg.timeoutMs + 999) / 1000)
	script := singleScript(prelude, decls, o, true, false)
	cvcScript := "(set-option :produce-models true)\n" + strings.Replace(singleScript(prelude, decls, o, false, true), "(check-sat)\n", "(check-sat)\n(get-model)\n", 1)
	type job struct {
		name string
		args []string
		in   string
	}
	jobs := []job{
		{"z3-new", []string{"-in", "-T:" + sec}, script},
		{"z3", []string{"-in", "-T:" + sec}, script},
		{"cvc5", []string{"--lang=smt2", "--tlimit=" + fmt.Sprint(cfg.timeoutMs)}, cvcScript},
	}
	ch := make(chan raceResult, len(jobs))
	for _, j := range jobs {
		j := j
		go func() {
			t0 := time.Now()
			out, _ := runSolver(ctx, j.name, j.args, j.in)
			ch <- raceResult{j.name, firstLine(out), out, time.Since(t0).Milliseconds()}
		}()
	}
	var all []raceResult
	for range jobs {
		r := <-ch
		all = append(all, r)
		if r.res == o.Expect || (r.res == "sat" || r.res == "unsat") {
			if !cfg.thorough || r.res != o.Expect {
				// definitive
				o.Result, o.Solver, o.Ms = r.res, r.solver, r.ms
				if r.res == "sat" && o.Expect != "sat" {
					o.Model = r.out
				}
				if !cfg.thorough {
					cancel()
					return
				}
			}
		}
	}
	// thorough (or no definitive answer): combine
	best := raceResult{res: "unknown"}
	for _, r := range all {
		if r.res == "sat" && o.Expect != "sat" {
			o.Result, o.Solver, o.Ms, o.Model = "sat", r.solver, r.ms, r.out
			return
		}
		if r.res == o.Expect {
			best = r
		}
	}
	if best.res == o.Expect {
		o.Result, o.Solver, o.Ms = best.res, best.solver, best.ms
		return
	}
	var raws []string
	for _, r := range all {
		out := r.out
		if len(out) > 400 {
			out = out[:400]
		}
		raws = append(raws, r.solver+": "+strings.ReplaceAll(out, "\n", " "))
	}
	o.Result = "unknown"
	o.Solver = "all"
	o.Raw = strings.Join(raws, " | ")
}
