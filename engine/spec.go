package main

// Contract language: lexer, Pratt parser and AST.
//
// Contracts are `//@` lines in /repo/contracts_verif.go. One clause per line;
// a line that does not start with a clause keyword continues the previous one.

import (
	"fmt"
	"os"
	"strconv"
	"strings"
	"unicode"
)

// ---------------------------------------------------------------- expressions

type Expr interface{ String() string }

type (
	EIdent  struct{ Name string }
	EInt    struct{ V string }
	EStr    struct{ V string }
	EBool   struct{ V bool }
	ENil    struct{}
	EUnary  struct{ Op string; X Expr }
	EBinary struct{ Op string; X, Y Expr }
	ECond   struct{ C, A, B Expr }
	ECall   struct{ Fn string; Args []Expr }
	EIndex  struct{ X, I Expr }
	EField  struct{ X Expr; F string }
	EAssert struct{ X Expr; T string } // x.(T)
	EQuant  struct {
		All  bool
		Var  string
		Typ  string
		Body Expr
	}
	ELit struct { // T{a, b}
		T    string
		Args []Expr
	}
	EAt struct{ X Expr; Label string } // e@entry
)

func (e EIdent) String() string  { return e.Name }
func (e EInt) String() string    { return e.V }
func (e EStr) String() string    { return strconv.Quote(e.V) }
func (e EBool) String() string   { return fmt.Sprint(e.V) }
func (e ENil) String() string    { return "nil" }
func (e EUnary) String() string  { return e.Op + e.X.String() }
func (e EBinary) String() string { return "(" + e.X.String() + " " + e.Op + " " + e.Y.String() + ")" }
func (e ECond) String() string {
	return "(" + e.C.String() + " ? " + e.A.String() + " : " + e.B.String() + ")"
}
func (e ECall) String() string {
	var a []string
	for _, x := range e.Args {
		a = append(a, x.String())
	}
	return e.Fn + "(" + strings.Join(a, ", ") + ")"
}
func (e EIndex) String() string  { return e.X.String() + "[" + e.I.String() + "]" }
func (e EField) String() string  { return e.X.String() + "." + e.F }
func (e EAssert) String() string { return e.X.String() + ".(" + e.T + ")" }
func (e EQuant) String() string {
	q := "exists"
	if e.All {
		q = "forall"
	}
	return "(" + q + " " + e.Var + " " + e.Typ + " :: " + e.Body.String() + ")"
}
func (e ELit) String() string {
	var a []string
	for _, x := range e.Args {
		a = append(a, x.String())
	}
	return e.T + "{" + strings.Join(a, ", ") + "}"
}
func (e EAt) String() string { return e.X.String() + "@" + e.Label }

// ---------------------------------------------------------------- statements (effects)

type Stmt struct {
	LHS Expr // EIdent or EIndex{EIdent, i}
	RHS Expr
}

func (s Stmt) String() string { return s.LHS.String() + " = " + s.RHS.String() }

// ---------------------------------------------------------------- lexer

type tok struct {
	k string // "id", "int", "str", "op", "eof"
	s string
}

type lexer struct {
	src  string
	pos  int
	toks []tok
}

var ops3 = []string{"<==>", "==>", "<==", "::", "==", "!=", "<=", ">=", "&&", "||", "++", "--", "+=", "-="}

func lex(src string) ([]tok, error) {
	var out []tok
	i := 0
	for i < len(src) {
		c := src[i]
		if c == ' ' || c == '\t' || c == '\n' {
			i++
			continue
		}
		if unicode.IsLetter(rune(c)) || c == '_' || c == '$' {
			j := i
			for j < len(src) && (unicode.IsLetter(rune(src[j])) || unicode.IsDigit(rune(src[j])) || src[j] == '_' || src[j] == '$') {
				j++
			}
			out = append(out, tok{"id", src[i:j]})
			i = j
			continue
		}
		if unicode.IsDigit(rune(c)) {
			j := i
			for j < len(src) && unicode.IsDigit(rune(src[j])) {
				j++
			}
			out = append(out, tok{"int", src[i:j]})
			i = j
			continue
		}
		if c == '"' {
			j := i + 1
			for j < len(src) && src[j] != '"' {
				if src[j] == '\\' {
					j++
				}
				j++
			}
			if j >= len(src) {
				return nil, fmt.Errorf("unterminated string")
			}
			s, err := strconv.Unquote(src[i : j+1])
			if err != nil {
				return nil, err
			}
			out = append(out, tok{"str", s})
			i = j + 1
			continue
		}
		matched := false
		for _, o := range ops3 {
			if strings.HasPrefix(src[i:], o) {
				out = append(out, tok{"op", o})
				i += len(o)
				matched = true
				break
			}
		}
		if matched {
			continue
		}
		out = append(out, tok{"op", string(c)})
		i++
	}
	out = append(out, tok{"eof", ""})
	return out, nil
}

// ---------------------------------------------------------------- parser

type parser struct {
	toks []tok
	p    int
}

func (p *parser) peek() tok { return p.toks[p.p] }
func (p *parser) next() tok { t := p.toks[p.p]; p.p++; return t }
func (p *parser) isOp(s string) bool {
	t := p.peek()
	return t.k == "op" && t.s == s
}
func (p *parser) isID(s string) bool {
	t := p.peek()
	return t.k == "id" && t.s == s
}
func (p *parser) expectOp(s string) {
	if !p.isOp(s) {
		panic(fmt.Sprintf("expected %q, got %q", s, p.peek().s))
	}
	p.p++
}
func (p *parser) ident() string {
	t := p.next()
	if t.k != "id" {
		panic(fmt.Sprintf("expected identifier, got %q", t.s))
	}
	return t.s
}

// typeText consumes tokens that form a type, until one of the stop ops at depth 0.
func (p *parser) typeText(stops ...string) string {
	var b strings.Builder
	depth := 0
	for {
		t := p.peek()
		if t.k == "eof" {
			break
		}
		if t.k == "op" {
			if depth == 0 {
				stop := false
				for _, s := range stops {
					if t.s == s {
						stop = true
					}
				}
				if stop {
					break
				}
			}
			if t.s == "(" || t.s == "[" || t.s == "{" {
				depth++
			}
			if t.s == ")" || t.s == "]" || t.s == "}" {
				depth--
			}
		}
		if t.k == "id" && b.Len() > 0 {
			last := b.String()[b.Len()-1]
			if unicode.IsLetter(rune(last)) || unicode.IsDigit(rune(last)) {
				b.WriteByte(' ')
			}
		}
		b.WriteString(t.s)
		p.p++
	}
	return b.String()
}

// builtins whose arguments at the given positions are Go types, not expressions
var typeArgPositions = map[string]map[int]bool{
	"alloc": {0: true}, "made": {0: true}, "framed": {0: true}, "zeroArr": {0: true}, "isType": {1: true}, "implements": {1: true}, "box": {1: true},
	"conv": {1: true, 2: true}, "emptyset": {0: true},
}

var binPrec = map[string]int{
	"<==>": 1, "==>": 2, "||": 4, "&&": 5,
	"==": 6, "!=": 6, "<": 6, "<=": 6, ">": 6, ">=": 6,
	"+": 7, "-": 7, "*": 8, "/": 8, "%": 8,
}

func (p *parser) expr(min int) Expr {
	lhs := p.unary()
	for {
		t := p.peek()
		if t.k != "op" {
			break
		}
		if t.s == "?" && min <= 3 {
			p.p++
			a := p.expr(4)
			p.expectOp(":")
			b := p.expr(3)
			lhs = ECond{lhs, a, b}
			continue
		}
		prec, ok := binPrec[t.s]
		if !ok || prec < min {
			break
		}
		p.p++
		var rhs Expr
		if t.s == "==>" || t.s == "<==>" {
			rhs = p.expr(prec) // right assoc
		} else {
			rhs = p.expr(prec + 1)
		}
		lhs = EBinary{t.s, lhs, rhs}
	}
	return lhs
}

func (p *parser) unary() Expr {
	if p.isOp("!") {
		p.p++
		return EUnary{"!", p.unary()}
	}
	if p.isOp("-") {
		p.p++
		return EUnary{"-", p.unary()}
	}
	if p.isOp("*") {
		p.p++
		return EUnary{"*", p.unary()}
	}
	return p.postfix(p.primary())
}

func (p *parser) postfix(x Expr) Expr {
	for {
		switch {
		case p.isOp("."):
			p.p++
			if p.isOp("(") {
				p.p++
				t := p.typeText(")")
				p.expectOp(")")
				x = EAssert{x, t}
			} else if p.isOp("*") {
				p.p++
				x = EField{x, "*"}
			} else {
				x = EField{x, p.ident()}
			}
		case p.isOp("["):
			p.p++
			i := p.expr(0)
			p.expectOp("]")
			x = EIndex{x, i}
		case p.isOp("@"):
			p.p++
			x = EAt{x, p.ident()}
		default:
			return x
		}
	}
}

func (p *parser) args(close string) []Expr {
	var a []Expr
	for !p.isOp(close) {
		a = append(a, p.expr(0))
		if p.isOp(",") {
			p.p++
		}
	}
	p.expectOp(close)
	return a
}

func (p *parser) primary() Expr {
	t := p.next()
	switch t.k {
	case "int":
		return EInt{t.s}
	case "str":
		return EStr{t.s}
	case "id":
		switch t.s {
		case "true":
			return EBool{true}
		case "false":
			return EBool{false}
		case "nil":
			return ENil{}
		case "forall", "exists":
			v := p.ident()
			typ := p.typeText("::")
			p.expectOp("::")
			body := p.expr(0)
			return EQuant{t.s == "forall", v, typ, body}
		}
		if p.isOp("(") {
			p.p++
			if pos, ok := typeArgPositions[t.s]; ok {
				var a []Expr
				i := 0
				for !p.isOp(")") {
					if pos[i] {
						a = append(a, EIdent{p.typeText(",", ")")})
					} else {
						a = append(a, p.expr(0))
					}
					if p.isOp(",") {
						p.p++
					}
					i++
				}
				p.expectOp(")")
				return ECall{t.s, a}
			}
			return ECall{t.s, p.args(")")}
		}
		if p.isOp("{") && unicode.IsUpper(rune(t.s[0])) {
			p.p++
			return ELit{t.s, p.args("}")}
		}
		return EIdent{t.s}
	case "op":
		if t.s == "(" {
			e := p.expr(0)
			p.expectOp(")")
			return e
		}
	}
	panic(fmt.Sprintf("unexpected token %q", t.s))
}

func parseExpr(src string) (e Expr, err error) {
	defer func() {
		if r := recover(); r != nil {
			err = fmt.Errorf("%v in %q", r, src)
		}
	}()
	toks, err := lex(src)
	if err != nil {
		return nil, err
	}
	p := &parser{toks: toks}
	e = p.expr(0)
	if p.peek().k != "eof" {
		return nil, fmt.Errorf("trailing %q in %q", p.peek().s, src)
	}
	return e, nil
}

// parseStmts: `a = e; b++; c[i] = e`
func parseStmts(src string) (out []Stmt, err error) {
	defer func() {
		if r := recover(); r != nil {
			err = fmt.Errorf("%v in %q", r, src)
		}
	}()
	toks, err := lex(src)
	if err != nil {
		return nil, err
	}
	p := &parser{toks: toks}
	for p.peek().k != "eof" {
		lhs := p.postfix(p.primary())
		switch {
		case p.isOp("++"):
			p.p++
			out = append(out, Stmt{lhs, EBinary{"+", lhs, EInt{"1"}}})
		case p.isOp("--"):
			p.p++
			out = append(out, Stmt{lhs, EBinary{"-", lhs, EInt{"1"}}})
		case p.isOp("+="):
			p.p++
			out = append(out, Stmt{lhs, EBinary{"+", lhs, p.expr(0)}})
		case p.isOp("="):
			p.p++
			out = append(out, Stmt{lhs, p.expr(0)})
		default:
			panic("expected assignment")
		}
		if p.isOp(";") {
			p.p++
		}
	}
	return out, nil
}

// ---------------------------------------------------------------- contracts

type Clause struct {
	Lemma string // non-empty: justified by a lemma over contracts (assumed by callers, not checked on the body)
	Disp []string // the tags as written (used in obligation names); nil = same as Tags
	Tags []string // empty = core
	E    Expr
	Src  string
	Ord  int // ordinal among clauses of the same kind in this contract
}

func (c *Clause) inProp(p string) bool {
	if len(c.Tags) == 0 || p == "" {
		return true
	}
	for _, t := range c.Tags {
		if t == p {
			return true
		}
	}
	return false
}

type GhostDecl struct {
	Name string
	Typ  string
	Init Expr // may be nil: unconstrained
}

type CallRule struct {
	Kind    string // "iface", "static", "field", "var", "elem", "go", "defer"
	Target  string // "Node.Prep", "runExecWithRetries", "CustomNode.prepFunc", "fn", "opts"
	Params  []string
	Results []string
	Req     []*Clause
	Assume  []*Clause
	Effects []Stmt
	EffSrc  string
	Ord     int
}

type LoopSpec struct {
	Cand  []*Clause // optional invariants: kept only if they hold on entry and are preserved (Houdini)
	Inv   []*Clause
	Decr  []*Clause
	Steps []Stmt
	Init  []Stmt
}

type Contract struct {
	Name     string // as written
	Params   []string
	Results  []string
	FreeVars []string
	FreeVarTypes []string
	Requires []*Clause
	Ensures  []*Clause
	Ghosts   []GhostDecl
	Rules    []*CallRule
	Loops    map[int]*LoopSpec
	Havoc    []string // "user", ...
	Assigns  []Expr
	AssignTags []string
	HasAssigns bool
	MayPanic bool
	Joins    bool // returning from this function means every closure handed out before has finished (pool.Wait)
	PanicTags []string
	IsLemma  bool
	ParamTypes []string
	GuardedCells [][2]string
	NoReturn bool
	Pure     bool
	Trusted  bool   // contract assumed, body not verified (stated in evidence)
	Abstract bool   // interface method / external: no body
	Line     int
	Props    map[string]bool // all tags mentioned
	Also     []string        // `also [tags]`: properties whose function set this contract joins although no clause names them
	Widen    []string        // `widen [tags]`: properties added to every tagged clause of this contract
}

// applyWiden: the properties named by `widen` depend on this function as a whole, so each of its tagged
// clauses is checked (and assumed) under them too; obligation names keep the tags as written.
func (ct *Contract) applyWiden() {
	for _, t := range ct.Also {
		ct.Props[t] = true
	}
	if len(ct.Widen) == 0 {
		return
	}
	add := func(tags []string) []string {
		if len(tags) == 0 {
			return tags
		}
		out := append([]string(nil), tags...)
		for _, w := range ct.Widen {
			found := false
			for _, t := range out {
				if t == w {
					found = true
				}
			}
			if !found {
				out = append(out, w)
			}
		}
		return out
	}
	fix := func(cs []*Clause) {
		for _, c := range cs {
			if len(c.Tags) > 0 {
				if c.Disp == nil {
					c.Disp = c.Tags
				}
				c.Tags = add(c.Tags)
			}
		}
	}
	fix(ct.Requires)
	fix(ct.Ensures)
	for _, r := range ct.Rules {
		fix(r.Req)
	}
	for _, l := range ct.Loops {
		fix(l.Inv)
		fix(l.Decr)
		fix(l.Cand)
	}
	ct.AssignTags = add(ct.AssignTags)
	ct.PanicTags = add(ct.PanicTags)
	for _, w := range ct.Widen {
		ct.Props[w] = true
	}
}

type SpecFunc struct {
	Name   string
	Params []string
	PTypes []string
	RType  string
	Body   Expr // nil = uninterpreted
}

type Guarded struct {
	Struct, Field, Lock string
}

type SpecFile struct {
	Contracts map[string]*Contract
	Order     []string
	SpecFuncs map[string]*SpecFunc
	SpecOrder []string
	Guarded   []Guarded
	Axioms    []*Clause
}

var clauseKeywords = map[string]bool{
	"func": true, "lemma": true, "nopanic": true, "joins": true, "also": true, "widen": true, "requires": true, "assume": true, "ensures": true, "ghost": true, "on": true, "effect": true,
	"loop": true, "assigns": true, "havoc": true, "may-panic": true, "pure": true, "spec": true,
	"abstract": true, "guarded": true, "no-return": true, "ensures-by": true, "guarded-cell": true, "freevars": true, "trusted": true, "axiom": true,
}

// lastDispCount: number of displayed tags of the last parseTags call that saw a "|" (-1: none).
var lastDispCount = -1

// parseTags parses a leading "[C01,C02]" and returns the rest.
func parseTags(s string) ([]string, string) {
	lastDispCount = -1
	s = strings.TrimSpace(s)
	if !strings.HasPrefix(s, "[") {
		return nil, s
	}
	end := strings.Index(s, "]")
	if end < 0 {
		return nil, s
	}
	inner := s[1:end]
	// "[C18|C03,C10]": the tags after the bar count like the others but are not part of the obligation's name
	lastDispCount = -1
	if bar := strings.Index(inner, "|"); bar >= 0 {
		lastDispCount = len(strings.Split(strings.TrimSpace(inner[:bar]), ","))
		inner = inner[:bar] + "," + inner[bar+1:]
	}
	// only treat as tags if every element looks like Cnn or "core"
	var tags []string
	for _, t := range strings.Split(inner, ",") {
		t = strings.TrimSpace(t)
		if t == "" {
			continue
		}
		if !(len(t) >= 3 && t[0] == 'C' && unicode.IsDigit(rune(t[1]))) {
			return nil, s
		}
		tags = append(tags, t)
	}
	return tags, strings.TrimSpace(s[end+1:])
}

func splitNames(s string) []string {
	s = strings.TrimSpace(s)
	s = strings.TrimPrefix(s, "(")
	s = strings.TrimSuffix(s, ")")
	var out []string
	for _, n := range strings.Split(s, ",") {
		n = strings.TrimSpace(n)
		if n != "" {
			out = append(out, n)
		}
	}
	return out
}

// parseSig parses `NAME(a, b) (r1, r2)`; NAME may contain parens for method receivers.
func parseSig(s string) (name string, params, results []string, err error) {
	s = strings.TrimSpace(s)
	// find the '(' that opens the parameter list: the first '(' not part of a receiver "(*T)" / "(T)" prefix
	i := 0
	if strings.HasPrefix(s, "(") {
		j := strings.Index(s, ")")
		if j < 0 {
			return "", nil, nil, fmt.Errorf("bad signature %q", s)
		}
		i = j + 1
	}
	k := strings.Index(s[i:], "(")
	if k < 0 {
		return strings.TrimSpace(s), nil, nil, nil
	}
	k += i
	name = strings.TrimSpace(s[:k])
	rest := s[k:]
	j := strings.Index(rest, ")")
	if j < 0 {
		return "", nil, nil, fmt.Errorf("bad signature %q", s)
	}
	params = splitNames(rest[:j+1])
	rest = strings.TrimSpace(rest[j+1:])
	rest = strings.TrimPrefix(rest, "returns")
	rest = strings.TrimSpace(rest)
	if rest != "" {
		results = splitNames(rest)
	}
	return
}

func parseSpecFile(path string) (*SpecFile, error) {
	data, err := os.ReadFile(path)
	if err != nil {
		return nil, err
	}
	sf := &SpecFile{Contracts: map[string]*Contract{}, SpecFuncs: map[string]*SpecFunc{}}
	type rawClause struct {
		kw, text string
		line     int
	}
	var raws []rawClause
	for ln, line := range strings.Split(string(data), "\n") {
		t := strings.TrimSpace(line)
		var body string
		if strings.HasPrefix(t, "//@") {
			body = t[3:]
		} else if strings.HasPrefix(t, "// @") {
			body = t[4:]
		} else {
			continue
		}
		if i := strings.Index(body, " // "); i >= 0 {
			body = body[:i]
		}
		body = strings.TrimSpace(body)
		if body == "" {
			continue
		}
		kw := body
		if i := strings.IndexAny(body, " \t"); i >= 0 {
			kw = body[:i]
		}
		if clauseKeywords[kw] {
			raws = append(raws, rawClause{kw, strings.TrimSpace(body[len(kw):]), ln + 1})
		} else if len(raws) > 0 {
			raws[len(raws)-1].text += " " + body
		} else {
			return nil, fmt.Errorf("%s:%d: continuation without clause", path, ln+1)
		}
	}
	var cur *Contract
	var rule *CallRule
	mk := func(list *[]*Clause, text string, line int) error {
		tags, rest := parseTags(text)
		e, err := parseExpr(rest)
		if err != nil {
			return fmt.Errorf("%s:%d: %v", path, line, err)
		}
		c := &Clause{Tags: tags, E: e, Src: rest, Ord: len(*list) + 1}
		if lastDispCount >= 0 && lastDispCount <= len(tags) {
			c.Disp = tags[:lastDispCount]
		}
		*list = append(*list, c)
		if cur != nil {
			for _, t := range tags {
				cur.Props[t] = true
			}
		}
		return nil
	}
	for _, r := range raws {
		fail := func(f string, a ...any) error {
			return fmt.Errorf("%s:%d: %s", path, r.line, fmt.Sprintf(f, a...))
		}
		switch r.kw {
		case "lemma":
			// lemma NAME(x T, y U): requires/ensures over its own (typed, universally quantified) variables only
			o := strings.Index(r.text, "(")
			c := strings.LastIndex(r.text, ")")
			if o < 0 || c < o {
				return nil, fail("bad lemma header")
			}
			cur = &Contract{Name: "lemma:" + strings.TrimSpace(r.text[:o]), Loops: map[int]*LoopSpec{}, Line: r.line, Props: map[string]bool{}, IsLemma: true}
			depth, start := 0, o+1
			var parts []string
			for i := o + 1; i < c; i++ {
				switch r.text[i] {
				case '(', '[', '{':
					depth++
				case ')', ']', '}':
					depth--
				case ',':
					if depth == 0 {
						parts = append(parts, r.text[start:i])
						start = i + 1
					}
				}
			}
			parts = append(parts, r.text[start:c])
			for _, pd := range parts {
				pd = strings.TrimSpace(pd)
				if pd == "" {
					continue
				}
				i := strings.IndexAny(pd, " \t")
				if i < 0 {
					return nil, fail("lemma variable needs a type: %q", pd)
				}
				cur.Params = append(cur.Params, pd[:i])
				cur.ParamTypes = append(cur.ParamTypes, strings.TrimSpace(pd[i:]))
			}
			if _, dup := sf.Contracts[cur.Name]; dup {
				return nil, fail("duplicate lemma %s", cur.Name)
			}
			sf.Contracts[cur.Name] = cur
			sf.Order = append(sf.Order, cur.Name)
			rule = nil
		case "func", "abstract":
			name, ps, rs, err := parseSig(r.text)
			if err != nil {
				return nil, fail("%v", err)
			}
			cur = &Contract{Name: name, Params: ps, Results: rs, Loops: map[int]*LoopSpec{}, Line: r.line, Props: map[string]bool{}, Abstract: r.kw == "abstract"}
			if _, dup := sf.Contracts[name]; dup {
				return nil, fail("duplicate contract %s", name)
			}
			sf.Contracts[name] = cur
			sf.Order = append(sf.Order, name)
			rule = nil
		case "spec":
			// spec func name(a T, b U) R = expr
			cur, rule = nil, nil
			text := strings.TrimSpace(strings.TrimPrefix(r.text, "func"))
			var body Expr
			head := text
			if i := strings.Index(text, " = "); i >= 0 {
				head = text[:i]
				e, err := parseExpr(text[i+3:])
				if err != nil {
					return nil, fail("%v", err)
				}
				body = e
			}
			o := strings.Index(head, "(")
			c := strings.LastIndex(head, ")")
			if o < 0 || c < o {
				return nil, fail("bad spec func")
			}
			f := &SpecFunc{Name: strings.TrimSpace(head[:o]), RType: strings.TrimSpace(head[c+1:]), Body: body}
			for _, pd := range strings.Split(head[o+1:c], ",") {
				pd = strings.TrimSpace(pd)
				if pd == "" {
					continue
				}
				i := strings.IndexAny(pd, " \t")
				if i < 0 {
					return nil, fail("spec func parameter needs a type: %q", pd)
				}
				f.Params = append(f.Params, pd[:i])
				f.PTypes = append(f.PTypes, strings.TrimSpace(pd[i:]))
			}
			sf.SpecFuncs[f.Name] = f
			sf.SpecOrder = append(sf.SpecOrder, f.Name)
		case "guarded":
			// guarded SharedStore.data by mu
			cur, rule = nil, nil
			parts := strings.Fields(r.text)
			if len(parts) != 3 || parts[1] != "by" {
				return nil, fail("bad guarded clause")
			}
			sfld := strings.SplitN(parts[0], ".", 2)
			if len(sfld) != 2 {
				return nil, fail("bad guarded clause")
			}
			sf.Guarded = append(sf.Guarded, Guarded{sfld[0], sfld[1], parts[2]})
		case "axiom":
			cur, rule = nil, nil
			if err := mk(&sf.Axioms, r.text, r.line); err != nil {
				return nil, err
			}
		default:
			if cur == nil {
				return nil, fail("clause %q outside a func", r.kw)
			}
			switch r.kw {
			case "requires":
				if rule != nil {
					if err := mk(&rule.Req, r.text, r.line); err != nil {
						return nil, err
					}
				} else if err := mk(&cur.Requires, r.text, r.line); err != nil {
					return nil, err
				}
			case "ensures":
				rule = nil
				if err := mk(&cur.Ensures, r.text, r.line); err != nil {
					return nil, err
				}
			case "ensures-by":
				rule = nil
				f := strings.Fields(r.text)
				if len(f) < 2 {
					return nil, fail("ensures-by needs a lemma name")
				}
				if err := mk(&cur.Ensures, strings.TrimSpace(r.text[len(f[0]):]), r.line); err != nil {
					return nil, err
				}
				cur.Ensures[len(cur.Ensures)-1].Lemma = f[0]
			case "assume":
				if rule == nil {
					return nil, fail("assume outside an on-call rule")
				}
				if err := mk(&rule.Assume, r.text, r.line); err != nil {
					return nil, err
				}
			case "effect":
				if rule == nil {
					return nil, fail("effect outside an on-call rule")
				}
				st, err := parseStmts(r.text)
				if err != nil {
					return nil, fail("%v", err)
				}
				rule.Effects = append(rule.Effects, st...)
				rule.EffSrc += r.text + "; "
			case "ghost":
				rule = nil
				for _, d := range strings.Split(r.text, ";") {
					d = strings.TrimSpace(d)
					if d == "" {
						continue
					}
					var init Expr
					if i := strings.Index(d, "="); i >= 0 {
						e, err := parseExpr(d[i+1:])
						if err != nil {
							return nil, fail("%v", err)
						}
						init = e
						d = strings.TrimSpace(d[:i])
					}
					i := strings.IndexAny(d, " \t")
					if i < 0 {
						return nil, fail("ghost needs a type: %q", d)
					}
					cur.Ghosts = append(cur.Ghosts, GhostDecl{d[:i], strings.TrimSpace(d[i:]), init})
				}
			case "on":
				// on call|go|defer [kind] target(params) [returns (names)]
				text := r.text
				f := strings.Fields(text)
				if len(f) < 2 {
					return nil, fail("bad on clause")
				}
				mode := f[0]
				text = strings.TrimSpace(text[len(mode):])
				kind := ""
				for _, k := range []string{"field", "var", "elem"} {
					if strings.HasPrefix(text, k+" ") {
						kind = k
						text = strings.TrimSpace(text[len(k):])
					}
				}
				name, ps, rs, err := parseSig(text)
				if err != nil {
					return nil, fail("%v", err)
				}
				if kind == "" {
					kind = "static"
				}
				rule = &CallRule{Kind: kind, Target: name, Params: ps, Results: rs, Ord: len(cur.Rules) + 1}
				if mode != "call" {
					rule.Kind = mode + ":" + kind
				}
				cur.Rules = append(cur.Rules, rule)
			case "loop":
				rule = nil
				f := strings.Fields(r.text)
				if len(f) < 2 {
					return nil, fail("bad loop clause")
				}
				k, err := strconv.Atoi(f[0])
				if err != nil {
					return nil, fail("bad loop ordinal")
				}
				ls := cur.Loops[k]
				if ls == nil {
					ls = &LoopSpec{}
					cur.Loops[k] = ls
				}
				rest := strings.TrimSpace(strings.TrimPrefix(strings.TrimSpace(r.text[len(f[0]):]), f[1]))
				switch f[1] {
				case "invariant":
					if err := mk(&ls.Inv, rest, r.line); err != nil {
						return nil, err
					}
				case "decreases":
					if err := mk(&ls.Decr, rest, r.line); err != nil {
						return nil, err
					}
				case "candidate":
					if err := mk(&ls.Cand, rest, r.line); err != nil {
						return nil, err
					}
				case "step":
					st, err := parseStmts(rest)
					if err != nil {
						return nil, fail("%v", err)
					}
					ls.Steps = append(ls.Steps, st...)
				case "init":
					st, err := parseStmts(rest)
					if err != nil {
						return nil, fail("%v", err)
					}
					ls.Init = append(ls.Init, st...)
				default:
					return nil, fail("unknown loop clause %q", f[1])
				}
			case "havoc":
				rule = nil
				cur.Havoc = append(cur.Havoc, strings.Fields(r.text)...)
			case "assigns":
				rule = nil
				cur.HasAssigns = true
				atags, atext := parseTags(r.text)
				cur.AssignTags = append(cur.AssignTags, atags...)
				for _, t := range atags {
					cur.Props[t] = true
				}
				for _, a := range strings.Split(atext, ",") {
					a = strings.TrimSpace(a)
					if a == "" || a == "nothing" {
						continue
					}
					e, err := parseExpr(a)
					if err != nil {
						return nil, fail("%v", err)
					}
					cur.Assigns = append(cur.Assigns, e)
				}
			case "guarded-cell":
				// guarded-cell <captured variable> by <captured mutex>
				f := strings.Fields(r.text)
				if len(f) != 3 || f[1] != "by" {
					return nil, fail("bad guarded-cell clause")
				}
				cur.GuardedCells = append(cur.GuardedCells, [2]string{f[0], f[2]})
			case "nopanic":
				// nopanic [tags]: the properties under which this function's panic-freedom obligations are reported
				tags, _ := parseTags(r.text)
				cur.PanicTags = append(cur.PanicTags, tags...)
				for _, t := range tags {
					cur.Props[t] = true
				}
			case "also":
				tags, _ := parseTags(r.text)
				cur.Also = append(cur.Also, tags...)
			case "widen":
				tags, _ := parseTags(r.text)
				cur.Widen = append(cur.Widen, tags...)
			case "joins":
				cur.Joins = true
			case "may-panic":
				cur.MayPanic = true
			case "no-return":
				cur.NoReturn = true
			case "pure":
				cur.Pure = true
			case "trusted":
				cur.Trusted = true
			case "freevars":
				// freevars (name Type, name Type, ...): contract-local names for captured variables, bound by type
				// (the type must be unique among the closure's captured variables), falling back to the source name
				text := strings.TrimSpace(r.text)
				text = strings.TrimSuffix(strings.TrimPrefix(text, "("), ")")
				depth := 0
				start := 0
				var parts []string
				for i, c := range text {
					switch c {
					case '(', '[', '{':
						depth++
					case ')', ']', '}':
						depth--
					case ',':
						if depth == 0 {
							parts = append(parts, text[start:i])
							start = i + 1
						}
					}
				}
				parts = append(parts, text[start:])
				for _, p := range parts {
					p = strings.TrimSpace(p)
					if p == "" {
						continue
					}
					i := strings.IndexAny(p, " \t")
					if i < 0 {
						cur.FreeVars = append(cur.FreeVars, p)
						cur.FreeVarTypes = append(cur.FreeVarTypes, "")
						continue
					}
					cur.FreeVars = append(cur.FreeVars, p[:i])
					cur.FreeVarTypes = append(cur.FreeVarTypes, strings.TrimSpace(p[i:]))
				}
			}
		}
	}
	for _, n := range sf.Order {
		sf.Contracts[n].applyWiden()
	}
	return sf, nil
}
