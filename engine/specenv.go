package main

// Evaluation of contract expressions against a symbolic state.

import (
	"fmt"
	"go/constant"
	"go/token"
	"go/types"
	"strings"

	"golang.org/x/tools/go/ssa"
)

type specError struct{ msg string }

func specFail(format string, a ...any) { panic(specError{fmt.Sprintf(format, a...)}) }

type Scope struct {
	vc    *FuncVC
	st    *State
	vars  map[string]any
	heap  map[string]string // nil = current heap of st
	ghost map[string]V      // nil = current ghost of st
	old   *Scope
	bound map[string]V
	pure  bool // inside a quantifier / spec function: do not touch the state
}

func (vc *FuncVC) newScope(st *State, vars map[string]any) *Scope {
	sc := &Scope{vc: vc, st: st, vars: vars}
	sc.old = &Scope{vc: vc, st: st, vars: vars, heap: st.heap0, ghost: st.ghost0}
	sc.old.old = sc.old
	return sc
}

// withOld returns a copy of the scope whose old() refers to the given snapshot.
func (sc *Scope) withOld(heap map[string]string, ghost map[string]V) *Scope {
	n := *sc
	o := &Scope{vc: sc.vc, st: sc.st, vars: sc.vars, heap: heap, ghost: ghost, bound: sc.bound}
	o.old = o
	n.old = o
	return &n
}

func (sc *Scope) heapTerm(name, sort string) string {
	if sc.heap == nil {
		return sc.st.heapGet(name, sort)
	}
	if t, ok := sc.heap[name]; ok {
		return t
	}
	return sc.vc.heapInit(name, sort)
}

func (sc *Scope) ghostLookup(name string) (V, bool) {
	if sc.ghost == nil {
		v, ok := sc.st.ghost[name]
		return v, ok
	}
	v, ok := sc.ghost[name]
	return v, ok
}

// resolveType parses a Go type expression in the package scope.
func (vc *FuncVC) resolveType(text string) types.Type {
	text = strings.TrimSpace(text)
	switch text {
	case "any":
		return types.NewInterfaceType(nil, nil)
	}
	tv, err := types.Eval(vc.eng.fset, vc.eng.pkg.Types, token.NoPos, text)
	if err != nil || tv.Type == nil {
		// qualified identifiers (imports are file-scoped, so Eval cannot see them)
		if strings.HasPrefix(text, "*") {
			return types.NewPointer(vc.resolveType(text[1:]))
		}
		if strings.HasPrefix(text, "[]") {
			return types.NewSlice(vc.resolveType(text[2:]))
		}
		if i := strings.Index(text, "."); i > 0 {
			for _, imp := range vc.eng.pkg.Types.Imports() {
				if imp.Name() == text[:i] {
					if obj := imp.Scope().Lookup(text[i+1:]); obj != nil {
						return obj.Type()
					}
				}
			}
		}
		specFail("cannot resolve type %q: %v", text, err)
	}
	return tv.Type
}

// ghostSort parses a ghost type: [K]V arrays, set[K], or a Go type.
func (vc *FuncVC) ghostSort(text string) (string, types.Type) {
	text = strings.TrimSpace(text)
	if strings.HasPrefix(text, "set[") && strings.HasSuffix(text, "]") {
		ks, _ := vc.ghostSort(text[4 : len(text)-1])
		return arraySort(ks, SBool), nil
	}
	if strings.HasPrefix(text, "[") && !strings.HasPrefix(text, "[]") {
		end := strings.Index(text, "]")
		ks, _ := vc.ghostSort(text[1:end])
		vs, _ := vc.ghostSort(text[end+1:])
		return arraySort(ks, vs), nil
	}
	t := vc.resolveType(text)
	return vc.w.sortOf(t), t
}

func (sc *Scope) evalBool(e Expr) string {
	v := sc.eval(e)
	if v.S != SBool {
		specFail("expected Bool, got %s in %s", v.S, e)
	}
	return v.T
}

func (sc *Scope) coerceNil(v V, to V) V {
	if v.S == "nil" {
		if to.S == "nil" {
			specFail("nil == nil")
		}
		return V{sc.vc.w.zero(to.S), to.S, to.GT}
	}
	return v
}

func (sc *Scope) eval(e Expr) V {
	vc := sc.vc
	w := vc.w
	switch x := e.(type) {
	case EInt:
		return V{x.V, SInt, types.Typ[types.Int]}
	case EStr:
		return V{w.strConst(x.V), SStr, types.Typ[types.String]}
	case EBool:
		return V{fmt.Sprint(x.V), SBool, types.Typ[types.Bool]}
	case ENil:
		return V{"", "nil", nil}
	case EIdent:
		return sc.ident(x.Name)
	case EUnary:
		switch x.Op {
		case "!":
			return V{not(sc.evalBool(x.X)), SBool, nil}
		case "-":
			v := sc.eval(x.X)
			return V{app("-", v.T), SInt, v.GT}
		case "*":
			v := sc.eval(x.X)
			return sc.deref(v)
		}
	case EBinary:
		return sc.binary(x)
	case ECond:
		c := sc.evalBool(x.C)
		a, b := sc.eval(x.A), sc.eval(x.B)
		a = sc.coerceNil(a, b)
		b = sc.coerceNil(b, a)
		return V{ite(c, a.T, b.T), a.S, a.GT}
	case EAt:
		if x.Label == "entry" || x.Label == "pre" {
			return sc.old.eval(x.X)
		}
		specFail("unknown label @%s", x.Label)
	case ECall:
		return sc.call(x)
	case EIndex:
		b := sc.eval(x.X)
		i := sc.eval(x.I)
		return sc.index(b, i)
	case EField:
		b := sc.eval(x.X)
		return sc.field(b, x.F)
	case EAssert:
		b := sc.eval(x.X)
		t := vc.resolveType(x.T)
		so := w.sortOf(t)
		if types.IsInterface(t) {
			return V{b.T, SIface, t}
		}
		w.typeConst(t)
		return V{vc.unboxTerm(so, app("pay", b.T)), so, t}
	case ELit:
		t := vc.resolveType(x.T)
		so := w.sortOf(t)
		si := w.structs[so]
		if si == nil || len(x.Args) != len(si.Fields) {
			specFail("bad literal %s", x)
		}
		var args []string
		for i, a := range x.Args {
			v := sc.eval(a)
			v = sc.coerceNil(v, V{S: si.Sorts[i]})
			args = append(args, v.T)
		}
		return V{app("mk_"+so, args...), so, t}
	case EQuant:
		so, gt := vc.ghostSort(x.Typ)
		name := fmt.Sprintf("q_%s_%d", x.Var, vc.qcount())
		n := *sc
		n.bound = map[string]V{}
		for k, v := range sc.bound {
			n.bound[k] = v
		}
		n.bound[x.Var] = V{name, so, gt}
		n.pure = true
		if n.old != nil && n.old != sc {
			o := *n.old
			o.bound = n.bound
			o.old = &o
			n.old = &o
		}
		body := n.evalBool(x.Body)
		q := "exists"
		if x.All {
			q = "forall"
		}
		return V{fmt.Sprintf("(%s ((%s %s)) %s)", q, name, so, body), SBool, nil}
	}
	specFail("cannot evaluate %s", e)
	return V{}
}

func (vc *FuncVC) qcount() int {
	vc.nfresh++
	return vc.nfresh
}

func (sc *Scope) ident(name string) V {
	if v, ok := sc.bound[name]; ok {
		return v
	}
	if r, ok := sc.vars[name]; ok {
		switch v := r.(type) {
		case V:
			return v
		case *Closure:
			return v.Ref
		case *Addr:
			if v.Sync {
				return V{v.Ref.T, SInt, nil} // a sync object is identified by the object that owns it
			}
			specFail("%s is an interior address", name)
		}
		specFail("%s has no first-class value (%T)", name, r)
	}
	if v, ok := sc.ghostLookup(name); ok {
		return v
	}
	// package-level constants
	if obj := sc.vc.eng.pkg.Types.Scope().Lookup(name); obj != nil {
		if c, ok := obj.(*types.Const); ok {
			switch c.Val().Kind() {
			case constant.String:
				return V{sc.vc.w.strConst(constant.StringVal(c.Val())), SStr, c.Type()}
			case constant.Int:
				return V{c.Val().ExactString(), SInt, c.Type()}
			case constant.Bool:
				return V{fmt.Sprint(constant.BoolVal(c.Val())), SBool, c.Type()}
			}
		}
	}
	// reflect kinds by name
	if k, ok := kindNames[name]; ok {
		return V{fmt.Sprint(k), SInt, nil}
	}
	specFail("unknown identifier %q", name)
	return V{}
}

var kindNames = map[string]int{"KInvalid": 0, "KBool": 1, "KInt": 2, "KFloat32": 13, "KFloat64": 14, "KArray": 17, "KChan": 18, "KFunc": 19,
	"KInterface": 20, "KMap": 21, "KPtr": 22, "KSlice": 23, "KString": 24, "KStruct": 25}

func (sc *Scope) deref(v V) V {
	if v.GT == nil {
		specFail("deref of untyped value")
	}
	pt, ok := v.GT.Underlying().(*types.Pointer)
	if !ok {
		specFail("deref of non-pointer")
	}
	so := sc.vc.w.sortOf(pt.Elem())
	hn, hs := cellHeap(so)
	return V{sel(sc.heapTerm(hn, hs), v.T), so, pt.Elem()}
}

func (sc *Scope) binary(x EBinary) V {
	switch x.Op {
	case "&&":
		return V{and(sc.evalBool(x.X), sc.evalBool(x.Y)), SBool, nil}
	case "||":
		return V{or(sc.evalBool(x.X), sc.evalBool(x.Y)), SBool, nil}
	case "==>":
		return V{implies(sc.evalBool(x.X), sc.evalBool(x.Y)), SBool, nil}
	case "<==>":
		return V{eq(sc.evalBool(x.X), sc.evalBool(x.Y)), SBool, nil}
	}
	a, b := sc.eval(x.X), sc.eval(x.Y)
	a = sc.coerceNil(a, b)
	b = sc.coerceNil(b, a)
	switch x.Op {
	case "==", "!=":
		if a.S != b.S {
			specFail("sort mismatch %s vs %s in %s", a.S, b.S, x)
		}
		e := eq(a.T, b.T)
		if x.Op == "!=" {
			e = not(e)
		}
		return V{e, SBool, nil}
	case "<", "<=", ">", ">=":
		return V{app(x.Op, a.T, b.T), SBool, nil}
	case "+", "-", "*":
		return V{app(x.Op, a.T, b.T), SInt, a.GT}
	case "/":
		return V{app("div", a.T, b.T), SInt, a.GT}
	case "%":
		return V{app("mod", a.T, b.T), SInt, a.GT}
	}
	specFail("bad operator %s", x.Op)
	return V{}
}

func (sc *Scope) field(b V, f string) V {
	vc := sc.vc
	w := vc.w
	// struct datatype value
	if si, ok := w.structs[b.S]; ok {
		for i, n := range si.Fields {
			if n == f {
				return V{app(w.structAcc(b.S, i), b.T), si.Sorts[i], si.Types[i]}
			}
		}
		specFail("no field %s in %s", f, b.S)
	}
	if b.GT == nil {
		specFail("field %s of a value with unknown Go type", f)
	}
	pt, ok := b.GT.Underlying().(*types.Pointer)
	if !ok {
		specFail("field %s of non-pointer %s", f, b.GT)
	}
	// walk embedded pointers: find the field, possibly through embedded structs
	return sc.fieldOfPtr(b.T, pt.Elem(), f, 0)
}

func (sc *Scope) fieldOfPtr(ref string, st types.Type, f string, depth int) V {
	vc := sc.vc
	w := vc.w
	if depth > 4 {
		specFail("field %s not found", f)
	}
	stt, ok := st.Underlying().(*types.Struct)
	if !ok {
		specFail("field %s of non-struct %s", f, st)
	}
	nt, _ := st.(*types.Named)
	for i := 0; i < stt.NumFields(); i++ {
		fl := stt.Field(i)
		if fl.Name() == f {
			if nt == nil || !isObjectStruct(st) {
				so := w.sortOf(st)
				hn, hs := cellHeap(so)
				base := sel(sc.heapTerm(hn, hs), ref)
				si := w.structs[so]
				return V{app(w.structAcc(so, i), base), si.Sorts[i], fl.Type()}
			}
			fs := w.sortOf(fl.Type())
			return V{sel(sc.heapTerm(fieldHeapName(nt, fl), arraySort(SInt, fs)), ref), fs, fl.Type()}
		}
	}
	// promoted through embedded pointer fields
	for i := 0; i < stt.NumFields(); i++ {
		fl := stt.Field(i)
		if !fl.Embedded() {
			continue
		}
		ept, ok := fl.Type().Underlying().(*types.Pointer)
		if !ok || nt == nil {
			continue
		}
		if !hasFieldDeep(ept.Elem(), f, 0) {
			continue
		}
		fs := w.sortOf(fl.Type())
		inner := sel(sc.heapTerm(fieldHeapName(nt, fl), arraySort(SInt, fs)), ref)
		return sc.fieldOfPtr(inner, ept.Elem(), f, depth+1)
	}
	specFail("no field %s in %s", f, st)
	return V{}
}

func hasFieldDeep(t types.Type, f string, depth int) bool {
	stt, ok := t.Underlying().(*types.Struct)
	if !ok || depth > 4 {
		return false
	}
	for i := 0; i < stt.NumFields(); i++ {
		fl := stt.Field(i)
		if fl.Name() == f {
			return true
		}
		if fl.Embedded() {
			if p, ok := fl.Type().Underlying().(*types.Pointer); ok && hasFieldDeep(p.Elem(), f, depth+1) {
				return true
			}
		}
	}
	return false
}

func (sc *Scope) index(b, i V) V {
	vc := sc.vc
	w := vc.w
	if strings.HasPrefix(b.S, "(Array ") {
		_, vs := splitArraySort(b.S)
		return V{sel(b.T, i.T), vs, nil}
	}
	if b.GT != nil {
		switch u := b.GT.Underlying().(type) {
		case *types.Slice:
			es := w.sortOf(u.Elem())
			hn, hs := elemsHeap(es)
			return V{sel(sel(sc.heapTerm(hn, hs), app("sarr", b.T)), app("+", app("soff", b.T), i.T)), es, u.Elem()}
		case *types.Map:
			ks, vs := w.sortOf(u.Key()), w.sortOf(u.Elem())
			_, _, vn, vso := mapHeaps(w, u)
			i = sc.coerceNil(i, V{S: ks})
			return V{sel(sel(sc.heapTerm(vn, vso), b.T), i.T), vs, u.Elem()}
		}
	}
	specFail("cannot index %s (%s)", b.T, b.S)
	return V{}
}

func (sc *Scope) call(x ECall) V {
	vc := sc.vc
	w := vc.w
	arg := func(i int) V { return sc.eval(x.Args[i]) }
	need := func(n int) {
		if len(x.Args) != n {
			specFail("%s expects %d arguments", x.Fn, n)
		}
	}
	switch x.Fn {
	case "old":
		need(1)
		return sc.old.eval(x.Args[0])
	case "len":
		need(1)
		v := arg(0)
		if v.S == SSlice {
			return V{app("slen", v.T), SInt, nil}
		}
		if v.S == SStr {
			w.declare("strlen", "(declare-fun strlen (Str) Int)")
			return V{app("strlen", v.T), SInt, nil}
		}
		if v.GT != nil {
			if mt, ok := v.GT.Underlying().(*types.Map); ok {
				ks := w.sortOf(mt.Key())
				dn, dso, _, _ := mapHeaps(w, mt)
				vc.declCard(ks)
				d := ite(eq(v.T, "0"), w.zero(arraySort(ks, SBool)), sel(sc.heapTerm(dn, dso), v.T))
				return V{app("card_"+sortName(ks), d), SInt, nil}
			}
		}
		specFail("len of %s", v.S)
	case "cap":
		need(1)
		return V{app("scap", arg(0).T), SInt, nil}
	case "card":
		need(1)
		v := arg(0)
		ks, _ := splitArraySort(v.S)
		vc.declCard(ks)
		return V{app("card_"+sortName(ks), v.T), SInt, nil}
	case "has":
		need(2)
		m, k := arg(0), arg(1)
		if strings.HasPrefix(m.S, "(Array ") {
			ks, _ := splitArraySort(m.S)
			k = sc.coerceNil(k, V{S: ks})
			return V{sel(m.T, k.T), SBool, nil}
		}
		if m.GT != nil {
			if mt, ok := m.GT.Underlying().(*types.Map); ok {
				ks := w.sortOf(mt.Key())
				dn, dso, _, _ := mapHeaps(w, mt)
				k = sc.coerceNil(k, V{S: ks})
				return V{and(not(eq(m.T, "0")), sel(sel(sc.heapTerm(dn, dso), m.T), k.T)), SBool, nil}
			}
		}
		specFail("has on %s", m.S)
	case "dom":
		need(1)
		m := arg(0)
		mt, ok := m.GT.Underlying().(*types.Map)
		if !ok {
			specFail("dom of non-map")
		}
		ks := w.sortOf(mt.Key())
		dn, dso, _, _ := mapHeaps(w, mt)
		return V{ite(eq(m.T, "0"), w.zero(arraySort(ks, SBool)), sel(sc.heapTerm(dn, dso), m.T)), arraySort(ks, SBool), nil}
	case "vals":
		need(1)
		m := arg(0)
		mt, ok := m.GT.Underlying().(*types.Map)
		if !ok {
			specFail("vals of non-map")
		}
		ks, vs := w.sortOf(mt.Key()), w.sortOf(mt.Elem())
		_, _, vn, vso := mapHeaps(w, mt)
		return V{sel(sc.heapTerm(vn, vso), m.T), arraySort(ks, vs), nil}
	case "elems":
		// elems(s): the whole backing array of slice s (indexed absolutely)
		need(1)
		b := arg(0)
		u, ok := b.GT.Underlying().(*types.Slice)
		if !ok {
			specFail("elems expects a slice")
		}
		es := w.sortOf(u.Elem())
		hn, hs := elemsHeap(es)
		return V{sel(sc.heapTerm(hn, hs), app("sarr", b.T)), arraySort(SInt, es), nil}
	case "raw":
		// raw(s, k): element k of the backing array of slice s (absolute index, not relative to the slice's offset)
		need(2)
		b, i := arg(0), arg(1)
		u, ok := b.GT.Underlying().(*types.Slice)
		if !ok {
			specFail("raw expects a slice")
		}
		es := w.sortOf(u.Elem())
		hn, hs := elemsHeap(es)
		return V{sel(sel(sc.heapTerm(hn, hs), app("sarr", b.T)), i.T), es, u.Elem()}
	case "closed", "chancap":
		need(1)
		ch := arg(0)
		key := x.Fn + "@chan"
		arr := zeroIntArr()
		arr = sc.heapTerm(key, arraySort(SInt, SInt))
		if x.Fn == "closed" {
			return V{not(eq(sel(arr, ch.T), "0")), SBool, nil}
		}
		return V{sel(arr, ch.T), SInt, nil}
	case "zeroArr":
		need(1)
		so, _ := vc.ghostSort(x.Args[0].String())
		return V{w.zero(so), so, nil}
	case "fzero":
		need(0)
		return V{"flt_zero", SFloat, types.Typ[types.Float64]}
	case "pointee":
		need(1)
		v := arg(0)
		return V{sel(sc.heapTerm("Pointee", arraySort(SInt, SIface)), app("uInt", app("pay", v.T))), SIface, nil}
	case "elemType":
		need(1)
		return V{app("elemT", arg(0).T), SType, nil}
	case "isNilPayload":
		need(1)
		vc.declT10()
		return V{app("isNilPayload", arg(0).T), SBool, nil}
	case "framed":
		// framed(T): every slice backing array / map of type T that existed at function entry has its entry contents
		need(1)
		t := vc.resolveType(x.Args[0].String())
		alive0 := vc.heapInit("alive", aliveSort)
		var parts []string
		frame := func(hn, hs string) {
			parts = append(parts, fmt.Sprintf("(forall ((r Int)) (! (=> (select %s r) (= (select %s r) (select %s r))) :pattern ((select %s r))))",
				alive0, sc.heapTerm(hn, hs), sc.old.heapTerm(hn, hs), sc.heapTerm(hn, hs)))
		}
		switch u := t.Underlying().(type) {
		case *types.Slice:
			hn, hs := elemsHeap(w.sortOf(u.Elem()))
			frame(hn, hs)
		case *types.Map:
			dn, dso, vn, vso := mapHeaps(w, u)
			frame(dn, dso)
			frame(vn, vso)
		case *types.Struct:
			nt, ok := t.(*types.Named)
			if !ok || !isObjectStruct(t) {
				specFail("framed expects a slice, map or object struct type")
			}
			for i := 0; i < u.NumFields(); i++ {
				f := u.Field(i)
				if isSyncType(f.Type()) {
					continue
				}
				frame(fieldHeapName(nt, f), arraySort(SInt, w.sortOf(f.Type())))
			}
		default:
			specFail("framed expects a slice, map or object struct type")
		}
		return V{and(parts...), SBool, nil}
	case "upd":
		need(3)
		a, i, v := arg(0), arg(1), arg(2)
		ks, vs := splitArraySort(a.S)
		i = sc.coerceNil(i, V{S: ks})
		v = sc.coerceNil(v, V{S: vs})
		return V{sto(a.T, i.T, v.T), a.S, nil}
	case "visited":
		need(1)
		name := "visited#" + x.Args[0].String()
		v, ok := sc.ghostLookup(name)
		if !ok {
			specFail("no range loop #%s has started on this path", x.Args[0])
		}
		return v
	case "emptyset":
		need(1)
		so, _ := vc.ghostSort(x.Args[0].String())
		return V{w.zero(arraySort(so, SBool)), arraySort(so, SBool), nil}
	case "typ":
		need(1)
		return V{app("typ", arg(0).T), SType, nil}
	case "isType":
		need(2)
		v := arg(0)
		t := vc.resolveType(x.Args[1].String())
		return V{and(not(eq(v.T, "nilI")), eq(app("typ", v.T), w.typeConst(t))), SBool, nil}
	case "implements":
		need(2)
		v := arg(0)
		t := vc.resolveType(x.Args[1].String())
		return V{and(not(eq(v.T, "nilI")), app("implements", app("typ", v.T), vc.ifaceNameOf(t))), SBool, nil}
	case "hasMethod":
		// hasMethod(x, Name): x is non-nil and its dynamic type has a method of that name
		// (independent of how the package declares its interfaces)
		need(2)
		v := arg(0)
		return V{and(not(eq(v.T, "nilI")), app(w.methodPred(x.Args[1].String()), app("typ", v.T))), SBool, nil}
	case "kind":
		need(1)
		v := arg(0)
		return V{ite(eq(v.T, "nilI"), "0", app("kindOf", app("typ", v.T))), SInt, nil}
	case "Is":
		need(2)
		a, b := arg(0), arg(1)
		return V{app("Is", a.T, b.T), SBool, nil}
	case "fresh":
		need(1)
		v := arg(0)
		return V{and(app(">", v.T, "0"), not(sel(sc.old.heapTerm("alive", aliveSort), v.T)), sel(sc.heapTerm("alive", aliveSort), v.T)), SBool, nil}
	case "hashable":
		need(1)
		v := arg(0)
		return V{or(eq(v.T, "nilI"), app("comparableT", app("typ", v.T))), SBool, nil}
	case "allocated":
		need(1)
		v := arg(0)
		return V{and(app(">", v.T, "0"), sel(sc.heapTerm("alive", aliveSort), v.T)), SBool, nil}
	case "ctxErr":
		need(1)
		w.declare("ctxErr", "(declare-fun ctxErr (Iface) Iface)\n(assert (forall ((c Iface)) (! (not (= (ctxErr c) nilI)) :pattern ((ctxErr c)))))")
		return V{app("ctxErr", arg(0).T), SIface, nil}
	case "box":
		need(2)
		// box(v, T): the interface value holding v with dynamic type T
		v := arg(0)
		t := vc.resolveType(x.Args[1].String())
		return V{vc.mkIface(sc.st, t, v), SIface, nil}
	case "conv":
		need(3)
		v := arg(0)
		from := vc.resolveType(x.Args[1].String())
		to := vc.resolveType(x.Args[2].String())
		return vc.convValue(sc.st, v, from, to)
	case "alloc", "made":
		// alloc(T, k): the object created by the k-th `new T` / composite literal of the function (block order);
		// made(T, k): the k-th make(T) (map, slice, channel)
		need(2)
		t := vc.resolveType(x.Args[0].String())
		k := 0
		if lit, ok := x.Args[1].(EInt); ok {
			fmt.Sscanf(lit.V, "%d", &k)
		}
		n := 0
		for _, b := range vc.fn.Blocks {
			for _, in := range b.Instrs {
				var made types.Type
				var val ssa.Value
				switch al := in.(type) {
				case *ssa.Alloc:
					if x.Fn != "alloc" {
						continue
					}
					made, val = al.Type().Underlying().(*types.Pointer).Elem(), al
				case *ssa.MakeMap:
					made, val = al.Type(), al
				case *ssa.MakeSlice:
					made, val = al.Type(), al
				case *ssa.MakeChan:
					made, val = al.Type(), al
				default:
					continue
				}
				if _, isAlloc := in.(*ssa.Alloc); !isAlloc && x.Fn != "made" {
					continue
				}
				if types.Identical(made, t) {
					n++
					if n == k {
						fr := sc.st.frames[0]
						if v, ok := fr.env[val].(V); ok {
							if v.GT == nil {
								v.GT = val.Type()
							}
							return v
						}
						specFail("alloc(%s,%d) has not been executed on this path", x.Args[0], k)
					}
				}
			}
		}
		specFail("alloc(%s,%d): no such allocation", x.Args[0], k)
	case "isClosure":
		need(2)
		v := arg(0)
		name, ok := x.Args[1].(EStr)
		if !ok {
			specFail("isClosure expects a function name string")
		}
		f := vc.eng.funcs[name.V]
		if f == nil {
			specFail("isClosure: unknown function %q", name.V)
		}
		w.declare("closureFn", "(declare-fun closureFn (Int) Int)")
		return V{and(app(">", v.T, "0"), eq(app("closureFn", v.T), fmt.Sprint(vc.fnID(f)))), SBool, nil}
	case "binding":
		need(3)
		v := arg(0)
		name, ok := x.Args[1].(EStr)
		if !ok {
			specFail("binding expects a function name string")
		}
		f := vc.eng.funcs[name.V]
		if f == nil {
			specFail("binding: unknown function %q", name.V)
		}
		i := 0
		switch a := x.Args[2].(type) {
		case EInt:
			fmt.Sscanf(a.V, "%d", &i)
		case EIdent:
			i = vc.eng.freeVarIndex(f, vc.eng.spec.Contracts[name.V], w, a.Name)
			if i < 0 {
				specFail("binding: %s has no captured variable %s", name.V, a.Name)
			}
		default:
			specFail("binding expects an index or a captured variable's name")
		}
		if i >= len(f.FreeVars) {
			specFail("binding: %s has no free variable %d", name.V, i)
		}
		ft := f.FreeVars[i].Type()
		so := w.sortOf(ft)
		fn := fmt.Sprintf("closureBind%d_%s", i, sortName(so))
		w.declare(fn, fmt.Sprintf("(declare-fun %s (Int) %s)", fn, so))
		return V{app(fn, v.T), so, ft}
	case "held":
		need(1)
		return sc.lockState(x.Args[0])
	case "slice":
		need(4)
		return V{app("mkSlice", arg(0).T, arg(1).T, arg(2).T, arg(3).T), SSlice, nil}
	case "sarr":
		need(1)
		return V{app("sarr", arg(0).T), SInt, nil}
	case "soff":
		need(1)
		return V{app("soff", arg(0).T), SInt, nil}
	}
	if f, ok := vc.eng.spec.SpecFuncs[x.Fn]; ok {
		return sc.specCall(f, x)
	}
	specFail("unknown function %s", x.Fn)
	return V{}
}

// specCall: uninterpreted spec functions become SMT functions; defined ones are unfolded.
func (sc *Scope) specCall(f *SpecFunc, x ECall) V {
	vc := sc.vc
	if len(x.Args) != len(f.Params) {
		specFail("%s expects %d arguments", f.Name, len(f.Params))
	}
	var args []V
	for i, a := range x.Args {
		v := sc.eval(a)
		so, gt := vc.ghostSort(f.PTypes[i])
		v = sc.coerceNil(v, V{S: so, GT: gt})
		if v.S != so {
			specFail("argument %d of %s: sort %s, want %s", i, f.Name, v.S, so)
		}
		if v.GT == nil {
			v.GT = gt
		}
		args = append(args, v)
	}
	rs, rt := vc.ghostSort(f.RType)
	if f.Body == nil {
		var as, ss []string
		for _, a := range args {
			as = append(as, a.T)
			ss = append(ss, a.S)
		}
		vc.w.declare("spec:"+f.Name, fmt.Sprintf("(declare-fun sf_%s (%s) %s)", f.Name, strings.Join(ss, " "), rs))
		if len(as) == 0 {
			return V{"sf_" + f.Name, rs, rt}
		}
		return V{app("sf_"+f.Name, as...), rs, rt}
	}
	n := *sc
	n.vars = map[string]any{}
	for i, p := range f.Params {
		n.vars[p] = args[i]
	}
	n.bound = nil // spec functions are closed: parameters shadow any enclosing quantified variable
	if sc.old != nil {
		o := *sc.old
		o.vars = n.vars
		o.bound = nil
		o.old = &o
		n.old = &o
	}
	v := n.eval(f.Body)
	v = n.coerceNil(v, V{S: rs, GT: rt})
	if v.GT == nil {
		v.GT = rt
	}
	return v
}

// exec runs ghost assignments.
func (sc *Scope) exec(stmts []Stmt) {
	st := sc.st
	// simultaneous semantics are not needed; statements run in order
	for _, s := range stmts {
		switch l := s.LHS.(type) {
		case EIdent:
			cur, ok := st.ghost[l.Name]
			if !ok {
				specFail("assignment to unknown ghost %s", l.Name)
			}
			v := sc.eval(s.RHS)
			v = sc.coerceNil(v, cur)
			if v.S != cur.S {
				specFail("ghost %s: sort %s, assigned %s", l.Name, cur.S, v.S)
			}
			st.ghost[l.Name] = V{v.T, cur.S, cur.GT}
		case EIndex:
			id, ok := l.X.(EIdent)
			if !ok {
				specFail("bad ghost assignment %s", s)
			}
			cur, ok := st.ghost[id.Name]
			if !ok {
				specFail("assignment to unknown ghost %s", id.Name)
			}
			i := sc.eval(l.I)
			ks, vs := splitArraySort(cur.S)
			i = sc.coerceNil(i, V{S: ks})
			v := sc.eval(s.RHS)
			v = sc.coerceNil(v, V{S: vs})
			if v.S != vs {
				specFail("ghost %s element: sort %s, assigned %s", id.Name, vs, v.S)
			}
			nt := st.fresh("g_"+id.Name, cur.S)
			st.assume(eq(nt, sto(cur.T, i.T, v.T)))
			st.ghost[id.Name] = V{nt, cur.S, cur.GT}
		default:
			specFail("bad ghost assignment %s", s)
		}
	}
}

// safeEval wraps eval and converts spec errors into an unsupported note.
func (vc *FuncVC) safeBool(sc *Scope, e Expr, what string) (res string, ok bool) {
	defer func() {
		if r := recover(); r != nil {
			if se, is := r.(specError); is {
				vc.unsupportedf("contract error in %s: %s", what, se.msg)
				res, ok = "false", false
				return
			}
			panic(r)
		}
	}()
	return sc.evalBool(e), true
}

func (vc *FuncVC) safeExec(sc *Scope, stmts []Stmt, what string) {
	defer func() {
		if r := recover(); r != nil {
			if se, is := r.(specError); is {
				vc.unsupportedf("contract error in %s: %s", what, se.msg)
				return
			}
			panic(r)
		}
	}()
	sc.exec(stmts)
}

func (vc *FuncVC) tryBool(sc *Scope, e Expr) (res string, ok bool) {
	defer func() {
		if r := recover(); r != nil {
			if _, is := r.(specError); is {
				res, ok = "", false
				return
			}
			panic(r)
		}
	}()
	return sc.evalBool(e), true
}
