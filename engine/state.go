package main

// Symbolic state: frames, heap (Burstall-style split), ghost state, path condition.

import (
	"fmt"
	"go/types"
	"sort"
	"strings"

	"golang.org/x/tools/go/ssa"
)

// Tuple is an engine-side multi-value (SSA tuples are only ever Extracted).
type Tuple []any

// Addr is an engine-side address: a location in one heap array, optionally an
// element index (Elems_* arrays) and a field path into a struct value.
type Addr struct {
	Heap    string // heap array name
	HSort   string // its SMT sort
	ValSort string // sort of the value stored at (Ref[,Idx]) before Path
	Ref     V
	Idx     *V
	Path    []int
	ElemT   types.Type // Go type of the pointee (after Path)
	Sync    bool       // pointee is a sync.* object: never loaded, identity only
}

func (a *Addr) key() string {
	k := a.Heap
	if a.Idx != nil {
		k += "[]"
	}
	for _, p := range a.Path {
		k += fmt.Sprintf(".%d", p)
	}
	return k
}

// Closure is an engine-side record for a MakeClosure / function constant.
type Closure struct {
	Fn       *ssa.Function
	Bindings []any
	Ref      V
}

type RangeIter struct {
	Map     V
	KS, VS  string
	MT      *types.Map
	Visited string // ghost-heap name holding the visited set (Array K Bool)
	Dom0    string
}

type deferred struct {
	instr *ssa.Defer
	fn    any
	args  []any
}

type Frame struct {
	fn      *ssa.Function
	env     map[ssa.Value]any
	block   *ssa.BasicBlock
	pred    *ssa.BasicBlock
	idx     int
	defers  []deferred
	retTo   ssa.Value // call instruction in the caller frame (inlined frames)
	cuts    map[*ssa.BasicBlock]*loopCut
	results []any
	pendingDefers []deferred // being run at RunDefers
	isDefer       bool
}

type loopCut struct {
	glue     []glueCand // assumed at the cut
	heldAt   map[string]string
	decr0    []string
	sections string
	entryPhi map[*ssa.Phi]string
	entryPC  int
}

type State struct {
	vc     *FuncVC
	frames []*Frame
	pc     []string
	heap   map[string]string
	ghost  map[string]V
	trace  []string
	heap0  map[string]string
	ghost0 map[string]V
	dead   bool
	// engine-side table: closure ref term -> closure record
	closures map[string]*Closure
	// shadow of stores through references allocated on this path (exact, see store)
	shadow    map[string]any
	freshRefs map[string]bool
	composed  bool
	// locations another goroutine may write at any time (captured by a closure that was handed to a callee): reads are unconstrained
	volatile map[string]bool
}

func (s *State) top() *Frame { return s.frames[len(s.frames)-1] }

func (s *State) clone() *State {
	n := &State{vc: s.vc, heap: make(map[string]string, len(s.heap)), ghost: make(map[string]V, len(s.ghost)), heap0: s.heap0, ghost0: s.ghost0,
		closures: make(map[string]*Closure, len(s.closures)), shadow: make(map[string]any, len(s.shadow)), freshRefs: make(map[string]bool, len(s.freshRefs)), composed: s.composed}
	for k, v := range s.shadow {
		n.shadow[k] = v
	}
	for k, v := range s.freshRefs {
		n.freshRefs[k] = v
	}
	if len(s.volatile) > 0 {
		n.volatile = make(map[string]bool, len(s.volatile))
		for k, v := range s.volatile {
			n.volatile[k] = v
		}
	}
	n.pc = append(make([]string, 0, len(s.pc)+16), s.pc...)
	n.trace = append([]string(nil), s.trace...)
	for k, v := range s.heap {
		n.heap[k] = v
	}
	for k, v := range s.ghost {
		n.ghost[k] = v
	}
	for k, v := range s.closures {
		n.closures[k] = v
	}
	for _, f := range s.frames {
		nf := &Frame{fn: f.fn, env: make(map[ssa.Value]any, len(f.env)), block: f.block, pred: f.pred, idx: f.idx, retTo: f.retTo,
			cuts: make(map[*ssa.BasicBlock]*loopCut, len(f.cuts)), isDefer: f.isDefer}
		for k, v := range f.env {
			nf.env[k] = v
		}
		for k, v := range f.cuts {
			nf.cuts[k] = v
		}
		nf.defers = append([]deferred(nil), f.defers...)
		nf.pendingDefers = append([]deferred(nil), f.pendingDefers...)
		nf.results = f.results
		n.frames = append(n.frames, nf)
	}
	return n
}

func (s *State) assume(f string) {
	if f == "true" || f == "" {
		return
	}
	s.pc = append(s.pc, f)
}

func (s *State) event(format string, a ...any) {
	s.trace = append(s.trace, fmt.Sprintf(format, a...))
}

func (s *State) fresh(prefix, sort string) string { return s.vc.fresh(prefix, sort) }

func (s *State) freshV(prefix string, t types.Type) V {
	so := s.vc.w.sortOf(t)
	v := V{s.fresh(prefix, so), so, t}
	s.assume(intRange(t, v.T))
	return v
}

// ------------------------------------------------------------------ heap

func (s *State) heapGet(name, sort string) string {
	if t, ok := s.heap[name]; ok {
		return t
	}
	c := s.vc.heapInit(name, sort)
	s.heap[name] = c
	return c
}

func (s *State) clearShadow(name string) {
	for k := range s.shadow {
		if strings.HasPrefix(k, name+"|") {
			delete(s.shadow, k)
		}
	}
}

func (s *State) heapSet(name, sort, term string) {
	s.heapGet(name, sort)
	s.clearShadow(name)
	c := s.fresh(name+"_", sort)
	s.assume(eq(c, term))
	s.heap[name] = c
}

func (s *State) heapHavoc(name, sort string) string {
	s.heapGet(name, sort)
	s.clearShadow(name)
	c := s.fresh(name+"_hv", sort)
	s.heap[name] = c
	return c
}

func fieldHeapName(st *types.Named, f *types.Var) string {
	return "H_" + st.Obj().Name() + "_" + f.Name()
}

func elemsHeap(sortStr string) (string, string) {
	return "Elems_" + sortName(sortStr), arraySort(SInt, arraySort(SInt, sortStr))
}
func cellHeap(sortStr string) (string, string) {
	return "Cell_" + sortName(sortStr), arraySort(SInt, sortStr)
}
// mapHeaps: heap arrays of one Go map type (distinct map types never share arrays).
func mapHeaps(w *World, mt *types.Map) (dom, domSort, val, valSort string) {
	ks, vs := w.sortOf(mt.Key()), w.sortOf(mt.Elem())
	n := mangle(w.canonName(mt.Key())) + "_" + mangle(w.canonName(mt.Elem()))
	return "MapDom_" + n, arraySort(SInt, arraySort(ks, SBool)), "MapVal_" + n, arraySort(SInt, arraySort(ks, vs))
}

func (s *State) rootTerm(a *Addr) string {
	cur := s.heapGet(a.Heap, a.HSort)
	if a.Idx != nil {
		return sel(sel(cur, a.Ref.T), a.Idx.T)
	}
	return sel(cur, a.Ref.T)
}

func (s *State) load(a *Addr) V {
	w := s.vc.w
	if strings.HasPrefix(a.Ref.T, "gvar_") || s.volatile != nil {
		key := a.Heap + "|" + a.Ref.T
		if strings.HasPrefix(a.Ref.T, "gvar_") || s.volatile[key] {
			// interference: the value is whatever another goroutine last wrote
			cur := s.heapGet(a.Heap, a.HSort)
			_, inner := splitArraySort(a.HSort)
			s.heapSet(a.Heap, a.HSort, sto(cur, a.Ref.T, s.fresh("volatile", inner)))
		}
	}
	term := s.rootTerm(a)
	so := a.ValSort
	for _, fi := range a.Path {
		si := w.structs[so]
		term = app(w.structAcc(so, fi), term)
		so = si.Sorts[fi]
	}
	return V{term, so, a.ElemT}
}

// storeAny is store, remembering engine-side values (closures) written through
// references allocated on this path, so that a later load returns the same record.
func (s *State) storeAny(a *Addr, val any, v V) {
	var keep map[string]any
	simple := a.Idx == nil && len(a.Path) == 0
	if simple && s.freshRefs[a.Ref.T] {
		keep = map[string]any{}
		for k, x := range s.shadow {
			if strings.HasPrefix(k, a.Heap+"|") {
				keep[k] = x
			}
		}
	}
	s.store(a, v)
	if keep != nil {
		for k, x := range keep {
			s.shadow[k] = x
		}
		s.shadow[a.Heap+"|"+a.Ref.T] = val
	}
}

func (s *State) loadAny(a *Addr) (any, bool) {
	if a.Idx == nil && len(a.Path) == 0 {
		if x, ok := s.shadow[a.Heap+"|"+a.Ref.T]; ok {
			return x, true
		}
	}
	return nil, false
}

func (s *State) store(a *Addr, v V) {
	w := s.vc.w
	cur := s.heapGet(a.Heap, a.HSort)
	nv := v.T
	if len(a.Path) > 0 {
		nv = updPath(w, a.ValSort, s.rootTerm(a), a.Path, v.T)
	}
	var upd string
	if a.Idx != nil {
		upd = sto(cur, a.Ref.T, sto(sel(cur, a.Ref.T), a.Idx.T, nv))
	} else {
		upd = sto(cur, a.Ref.T, nv)
	}
	s.heapSet(a.Heap, a.HSort, upd)
}

func updPath(w *World, so, old string, path []int, nv string) string {
	if len(path) == 0 {
		return nv
	}
	si := w.structs[so]
	var args []string
	for i := range si.Fields {
		cur := app(w.structAcc(so, i), old)
		if i == path[0] {
			args = append(args, updPath(w, si.Sorts[i], cur, path[1:], nv))
		} else {
			args = append(args, cur)
		}
	}
	return app("mk_"+so, args...)
}

// ------------------------------------------------------------------ allocation

const aliveSort = "(Array Int Bool)"

func (s *State) alloc(prefix string) V {
	r := s.fresh(prefix, SInt)
	alive := s.heapGet("alive", aliveSort)
	s.assume(app(">", r, "0"))
	s.assume(not(sel(alive, r)))
	s.heapSet("alive", aliveSort, sto(alive, r, "true"))
	s.freshRefs[r] = true
	return V{T: r, S: SInt}
}

func (s *State) assumeAlive(r string) {
	alive := s.heapGet("alive", aliveSort)
	s.assume(app(">=", r, "0"))
	s.assume(or(eq(r, "0"), sel(alive, r)))
}

// ------------------------------------------------------------------ ghost

func (s *State) ghostNames() []string {
	var ns []string
	for k := range s.ghost {
		ns = append(ns, k)
	}
	sort.Strings(ns)
	return ns
}
