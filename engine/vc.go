package main

// Per-function verification context: declarations, obligations, naming.

import (
	"fmt"
	"go/types"
	"sort"
	"strings"

	"golang.org/x/tools/go/ssa"
)

type Oblig struct {
	Name   string
	Func   string
	Kind   string
	Tags   []string
	PC     []string
	Goal   string
	Trace  []string
	Expect string // "unsat" (default) or "sat" (cover checks)
	Glue   bool
	Quick  bool // structural obligation: decide feasibility only on the path condition

	// filled by the solver stage
	Result string
	Solver string
	Ms     int64
	Model  string
	Raw    string
}

type FuncVC struct {
	eng      *Engine
	w        *World
	fn       *ssa.Function
	name     string
	contract *Contract
	prop     string

	decls     []string
	nfresh    int
	heapInits map[string]string // heap name -> initial constant
	heapSorts map[string]string
	obligs    []*Oblig
	glue      map[string][]glueCand // loop key -> surviving candidates
	glueInit  map[string]bool
	candDropped map[string]bool // loop key|ordinal of optional invariants that did not survive
	unsupported []string
	paths     int
	returns   int
	callOrds  map[ssa.Instruction]string
	loopInfos map[*ssa.Function]*loopInfo
	assumed   map[string]bool // callee contracts whose clauses were assumed
	trusted   map[string]bool // library axioms used (T1..T10 names)
	glueOnly  bool
	maxPaths  int
	aborted   string
	entryVars map[string]any
	compose   string
	lemmaClauses map[string][]string
	composeArgs map[string]V
	deferredReq []*Clause
}

func (vc *FuncVC) fresh(prefix, sort string) string {
	vc.nfresh++
	n := fmt.Sprintf("%s!%d", mangle(prefix), vc.nfresh)
	vc.decls = append(vc.decls, fmt.Sprintf("(declare-const %s %s)", n, sort))
	return n
}

func (vc *FuncVC) heapInit(name, sort string) string {
	if c, ok := vc.heapInits[name]; ok {
		return c
	}
	c := mangle(name) + "!0"
	vc.decls = append(vc.decls, fmt.Sprintf("(declare-const %s %s)", c, sort))
	vc.heapInits[name] = c
	vc.heapSorts[name] = sort
	return c
}

func (vc *FuncVC) unsupportedf(format string, a ...any) {
	m := fmt.Sprintf(format, a...)
	for _, u := range vc.unsupported {
		if u == m {
			return
		}
	}
	vc.unsupported = append(vc.unsupported, m)
}

func (vc *FuncVC) inProp(tags []string) bool {
	if len(tags) == 0 || vc.prop == "" {
		return true
	}
	for _, t := range tags {
		if t == vc.prop {
			return true
		}
	}
	return false
}

// addOblig records a proof obligation on the current path and then assumes it.
func (vc *FuncVC) addOblig(st *State, kind, name string, tags []string, goal string) {
	if goal == "true" || !vc.inProp(tags) {
		return
	}
	o := &Oblig{Name: vc.name + "/" + name, Func: vc.name, Kind: kind, Tags: tags, Goal: goal,
		PC: st.pc[:len(st.pc):len(st.pc)], Trace: append([]string(nil), st.trace...), Expect: "unsat"}
	if kind == "glue-entry" || kind == "glue-preserved" {
		o.Glue = true
	}
	vc.obligs = append(vc.obligs, o)
	if !o.Glue {
		st.assume(goal)
	}
}

// structural obligation: the path must be infeasible.
func (vc *FuncVC) addUnreachable(st *State, kind, name string, tags []string) {
	o := &Oblig{Name: vc.name + "/" + name, Func: vc.name, Kind: kind, Tags: tags, Goal: "false",
		PC: st.pc[:len(st.pc):len(st.pc)], Trace: append([]string(nil), st.trace...), Expect: "unsat", Quick: true}
	vc.obligs = append(vc.obligs, o)
}

func (vc *FuncVC) addCover(st *State, name string) {
	o := &Oblig{Name: vc.name + "/" + name, Func: vc.name, Kind: "cover", Goal: "true",
		PC: st.pc[:len(st.pc):len(st.pc)], Expect: "sat", Trace: append([]string(nil), st.trace...)}
	vc.obligs = append(vc.obligs, o)
}

// relName gives the contract-file name of an SSA function.
// closureAlias: a closure literal that was moved into an un-contracted helper keeps the contract
// written for it under its old name (see Engine.resolveClosureAliases).
var closureAlias = map[*ssa.Function]string{}

func relName(fn *ssa.Function) string {
	if a, ok := closureAlias[fn]; ok {
		return a
	}
	if fn.Pkg == nil {
		if fn.Parent() != nil {
			return fn.String()
		}
		return fn.String()
	}
	s := fn.RelString(fn.Pkg.Pkg)
	// (Result).AsInt -> Result.AsInt
	if strings.HasPrefix(s, "(") && !strings.HasPrefix(s, "(*") {
		if i := strings.Index(s, ")"); i > 0 {
			s = s[1:i] + s[i+1:]
		}
	}
	return s
}

// callOrdinals names call sites: "<target>#k" in block/instruction order.
func (vc *FuncVC) siteName(fn *ssa.Function, instr ssa.Instruction, target string) string {
	if vc.callOrds == nil {
		vc.callOrds = map[ssa.Instruction]string{}
	}
	if n, ok := vc.callOrds[instr]; ok {
		return n
	}
	// number all call-like instructions of fn by target
	counts := map[string]int{}
	for _, b := range fn.Blocks {
		for _, in := range b.Instrs {
			var cc *ssa.CallCommon
			switch x := in.(type) {
			case *ssa.Call:
				cc = x.Common()
			case *ssa.Go:
				cc = x.Common()
			case *ssa.Defer:
				cc = x.Common()
			default:
				continue
			}
			t := callTargetName(cc)
			counts[t]++
			vc.callOrds[in] = fmt.Sprintf("%s#%d", t, counts[t])
		}
	}
	if n, ok := vc.callOrds[instr]; ok {
		return n
	}
	return target + "#?"
}

func callTargetName(cc *ssa.CallCommon) string {
	if cc.IsInvoke() {
		it := cc.Value.Type()
		n := types.TypeString(it, func(p *types.Package) string { return "" })
		if nt, ok := it.(*types.Named); ok {
			n = nt.Obj().Name()
			if nt.Obj().Pkg() != nil && nt.Obj().Pkg().Name() != "flyt" {
				n = nt.Obj().Pkg().Name() + "." + n
			}
		}
		return n + "." + cc.Method.Name()
	}
	if f := cc.StaticCallee(); f != nil {
		if f.Pkg != nil && f.Pkg.Pkg.Name() == "flyt" {
			return relName(f)
		}
		return f.String()
	}
	if b, ok := cc.Value.(*ssa.Builtin); ok {
		if b.Name() == "append" && len(cc.Args) > 0 {
			return "builtin.append<" + types.TypeString(cc.Args[0].Type(), func(*types.Package) string { return "" }) + ">"
		}
		return "builtin." + b.Name()
	}
	return "dynamic:" + describeValue(cc.Value)
}

// describeValue gives a stable structural description of where a called function value comes from.
func describeValue(v ssa.Value) string {
	switch x := v.(type) {
	case *ssa.UnOp:
		if fa, ok := x.X.(*ssa.FieldAddr); ok {
			st := fa.X.Type().Underlying().(*types.Pointer).Elem()
			name := "?"
			if nt, ok := st.(*types.Named); ok {
				name = nt.Obj().Name()
			}
			return "field " + name + "." + st.Underlying().(*types.Struct).Field(fa.Field).Name()
		}
		if ia, ok := x.X.(*ssa.IndexAddr); ok {
			return "elem " + strings.TrimPrefix(describeValue(ia.X), "var ")
		}
		switch y := x.X.(type) {
		case *ssa.FreeVar:
			return "var " + y.Name()
		case *ssa.Parameter:
			return "var " + y.Name()
		}
		return "load"
	case *ssa.ChangeType:
		// a conversion that keeps the value (channel direction, named/unnamed type): described by its operand
		return describeValue(x.X)
	case *ssa.Parameter:
		return "var " + x.Name()
	case *ssa.FreeVar:
		return "var " + x.Name()
	case *ssa.Phi:
		return "carried<" + types.TypeString(x.Type(), func(*types.Package) string { return "" }) + ">"
	case *ssa.Extract:
		if sel, ok := x.Tuple.(*ssa.Select); ok && x.Index >= 2 {
			k := 0
			for _, st := range sel.States {
				if st.Dir == types.RecvOnly {
					if k == x.Index-2 {
						return "recv " + describeValue(st.Chan)
					}
					k++
				}
			}
		}
		return "extract"
	}
	return fmt.Sprintf("%T", v)
}

// summary helpers

func (vc *FuncVC) obligNames() []string {
	seen := map[string]bool{}
	var out []string
	for _, o := range vc.obligs {
		if !seen[o.Name] {
			seen[o.Name] = true
			out = append(out, o.Name)
		}
	}
	sort.Strings(out)
	return out
}
