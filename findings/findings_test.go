package flyt

// Demonstrations of the four genuine defects flytvc reported on the unchanged
// tree (see /verif/known_findings.txt). Each test fails on the pre-fix code and
// passes after the corresponding "fix:" commit. Run with:
//   /verif/tools/overlay_test.sh /verif/findings/findings_test.go 'TestFinding'

import (
	"context"
	"errors"
	"math"
	"testing"
)

// D1 (C15): non-Must slice accessors must never panic and succeed exactly for slices.
func TestFindingD1_AsSlice(t *testing.T) {
	func() {
		defer func() {
			if r := recover(); r != nil {
				t.Errorf("AsSlice panicked on a map value: %v", r)
			}
		}()
		if _, ok := NewResult(map[string]int{"a": 1}).AsSlice(); ok {
			t.Errorf("AsSlice reported a map as a slice")
		}
	}()
	if s, ok := NewResult(math.NaN()).AsSlice(); ok {
		t.Errorf("AsSlice reported NaN (a float64) as a slice: %v", s)
	}
	store := NewSharedStore()
	store.Set("f", func() {})
	func() {
		defer func() {
			if r := recover(); r != nil {
				t.Errorf("GetSliceOr panicked on a func value: %v", r)
			}
		}()
		if got := store.GetSliceOr("f", nil); got != nil {
			t.Errorf("GetSliceOr reported a func as a slice")
		}
	}()
}

// D2 (C18): a successful run never yields the empty action, also for an empty batch.
func TestFindingD2_EmptyBatchAction(t *testing.T) {
	node := NewBatchNode().
		WithPrepFunc(func(ctx context.Context, s *SharedStore) ([]Result, error) { return nil, nil }).
		WithPostFunc(func(ctx context.Context, s *SharedStore, items, results []Result) (Action, error) { return "", nil })
	act, err := Run(context.Background(), node, NewSharedStore())
	if err != nil {
		t.Fatal(err)
	}
	if act == "" {
		t.Errorf("successful run of an empty batch returned the empty action")
	}
}

// D3 (C09/C11): an item whose processing never ran is never presented to post as a success.
func TestFindingD3_StopModeSkippedSlots(t *testing.T) {
	boom := errors.New("boom")
	executed := map[int]bool{}
	var seen []Result
	node := NewBatchNode().WithBatchErrorHandling(false).
		WithPrepFunc(func(ctx context.Context, s *SharedStore) ([]Result, error) {
			return []Result{R(0), R(1), R(2), R(3)}, nil
		}).
		WithExecFunc(func(ctx context.Context, item Result) (Result, error) {
			i := item.MustInt()
			executed[i] = true
			if i == 1 {
				return Result{}, boom
			}
			return R(i * 10), nil
		}).
		WithPostFunc(func(ctx context.Context, s *SharedStore, items, results []Result) (Action, error) {
			seen = results
			return DefaultAction, nil
		})
	if _, err := Run(context.Background(), node, NewSharedStore()); err != nil {
		t.Fatal(err)
	}
	for i, r := range seen {
		if !executed[i] && !r.IsError() {
			t.Errorf("item %d was never executed but its slot is a success (value %v)", i, r.Value())
		}
	}
}

// D4 (C17): an error result returned by exec reaches post as that error result, not wrapped a second time.
func TestFindingD4_ErrorResultDoubleWrapped(t *testing.T) {
	boom := errors.New("boom")
	var got Result
	node := NewNode().
		WithExecFunc(func(ctx context.Context, p Result) (Result, error) { return NewErrorResult(boom), nil }).
		WithPostFunc(func(ctx context.Context, s *SharedStore, p, e Result) (Action, error) {
			got = e
			return DefaultAction, nil
		})
	if _, err := Run(context.Background(), node, NewSharedStore()); err != nil {
		t.Fatal(err)
	}
	if !got.IsError() || got.Error() != boom {
		t.Errorf("post did not receive exec's error result: IsError=%v value=%#v", got.IsError(), got.Value())
	}
	// Any-style post keeps seeing the error result itself (not a stripped nil)
	var gotAny any
	node2 := NewNode().
		WithExecFunc(func(ctx context.Context, p Result) (Result, error) { return NewErrorResult(boom), nil }).
		WithPostFuncAny(func(ctx context.Context, s *SharedStore, p, e any) (Action, error) {
			gotAny = e
			return DefaultAction, nil
		})
	if _, err := Run(context.Background(), node2, NewSharedStore()); err != nil {
		t.Fatal(err)
	}
	if r, ok := gotAny.(Result); !ok || !r.IsError() {
		t.Errorf("any-style post lost exec's error state: got %#v", gotAny)
	}
}
