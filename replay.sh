#!/bin/sh
# usage: replay.sh <replay-file.json> — prints the recorded obligation and re-runs its scenario (if any) on /repo
cd "$(dirname "$0")" || exit 2
[ -x bin/flytvc ] || ./setup.sh
exec bin/flytvc replay -file "$1"
