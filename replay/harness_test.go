package flyt

// Replay harness of the flytvc checks. Injected into the package with
// `go test -overlay` (nothing is written to the repository).
//
// It searches small, deterministic scenario spaces for an input on which the
// REAL code violates a property, using runtime oracles written from the
// property statements. It is used only to turn a failed proof obligation into
// a concrete failing input (or to re-run a recorded one); it proves nothing.
//
//   VERIF_REPLAY_FAMILY   lifecycle|flow|batch|store|value|bind|config|pool
//   VERIF_REPLAY_PROPERTY Cxx (which oracle clauses count)
//   VERIF_REPLAY_ONE      JSON scenario to re-run (optional)
//   VERIF_REPLAY_OUT      file to write the JSON result to

import (
	"context"
	"encoding/json"
	"errors"
	"fmt"
	"math"
	"os"
	"reflect"
	"runtime"
	"sort"
	"strings"
	"sync"
	"sync/atomic"
	"testing"
	"time"
)

type vrResult struct {
	Family    string          `json:"family"`
	Property  string          `json:"property"`
	Tried     int             `json:"scenarios_tried"`
	Failing   json.RawMessage `json:"failing_scenario,omitempty"`
	Violation string          `json:"violation,omitempty"`
}

func TestVerifReplay(t *testing.T) {
	fam, prop := os.Getenv("VERIF_REPLAY_FAMILY"), os.Getenv("VERIF_REPLAY_PROPERTY")
	if fam == "" {
		t.Skip("no replay requested")
	}
	res := vrResult{Family: fam, Property: prop}
	report := func(sc any, msg string) bool {
		if msg == "" {
			return false
		}
		b, _ := json.Marshal(sc)
		res.Failing, res.Violation = b, msg
		return true
	}
	one := os.Getenv("VERIF_REPLAY_ONE")
	switch fam {
	case "lifecycle":
		if one != "" {
			var sc lcScenario
			if err := json.Unmarshal([]byte(one), &sc); err != nil {
				t.Fatal(err)
			}
			res.Tried = 1
			report(sc, runLifecycle(sc, prop))
			break
		}
		for _, sc := range lifecycleScenarios() {
			res.Tried++
			if report(sc, runLifecycle(sc, prop)) {
				break
			}
		}
	case "flow":
		if one != "" {
			var sc flScenario
			if err := json.Unmarshal([]byte(one), &sc); err != nil {
				t.Fatal(err)
			}
			res.Tried = 1
			report(sc, runFlowScenario(sc, prop))
			break
		}
		for _, sc := range flowScenarios() {
			res.Tried++
			if report(sc, runFlowScenario(sc, prop)) {
				break
			}
		}
	case "batch":
		if one != "" {
			var sc btScenario
			if err := json.Unmarshal([]byte(one), &sc); err != nil {
				t.Fatal(err)
			}
			res.Tried = 1
			report(sc, runBatchScenario(sc, prop))
			break
		}
		for _, sc := range batchScenarios() {
			res.Tried++
			if report(sc, runBatchScenario(sc, prop)) {
				break
			}
		}
	case "store":
		for seed := 1; seed <= 300; seed++ {
			res.Tried++
			if report(map[string]int{"seed": seed}, runStoreOps(seed)) {
				break
			}
		}
	case "storeconc":
		res.Tried = 1
		report(map[string]string{"scenario": "lock probe (every operation against a held reader / writer section); Merge(64 keys) racing Set on an empty store; Clear racing GetAll; 20000 rounds"}, runStoreConcurrent())
	case "value":
		for i := range valueCatalogue() {
			res.Tried++
			if report(map[string]any{"value_index": i, "value": fmt.Sprintf("%T", valueCatalogue()[i])}, runValue(i)) {
				break
			}
		}
	case "bind":
		for i := range bindCases() {
			res.Tried++
			if report(map[string]any{"case": i, "desc": bindCases()[i].desc}, runBind(i)) {
				break
			}
		}
	case "config":
		for seed := 1; seed <= 400; seed++ {
			res.Tried++
			if report(map[string]int{"seed": seed}, runConfig(seed)) {
				break
			}
		}
	case "pool":
		for _, sc := range poolScenarios() {
			res.Tried++
			if report(sc, runPool(sc)) {
				break
			}
		}
	default:
		t.Fatalf("unknown family %q", fam)
	}
	b, _ := json.MarshalIndent(res, "", " ")
	if out := os.Getenv("VERIF_REPLAY_OUT"); out != "" {
		os.WriteFile(out, b, 0o644)
	}
	t.Logf("%s", b)
}

func wants(prop string, ids ...string) bool {
	if prop == "" {
		return true
	}
	for _, id := range ids {
		if id == prop {
			return true
		}
	}
	return false
}

func guard(f func() string) (msg string) {
	defer func() {
		if r := recover(); r != nil {
			msg = fmt.Sprintf("panic: %v", r)
		}
	}()
	done := make(chan string, 1)
	go func() {
		defer func() {
			if r := recover(); r != nil {
				done <- fmt.Sprintf("panic: %v", r)
			}
		}()
		done <- f()
	}()
	select {
	case m := <-done:
		return m
	case <-time.After(10 * time.Second):
		return "hang: scenario did not finish within 10s"
	}
}

// ------------------------------------------------------------------ lifecycle

type lcScenario struct {
	Kind       string `json:"kind"` // struct | plain | func
	Fallback   bool   `json:"fallback"`
	N          int    `json:"retries"`
	WaitMs     int    `json:"wait_ms"`
	PrepErr    bool   `json:"prep_err"`
	ExecFail   []bool `json:"exec_fail"` // per attempt; beyond the script: last entry
	FbErr      bool   `json:"fallback_err"`
	PostErr    bool   `json:"post_err"`
	PostAction string `json:"post_action"`
	CancelAt   int    `json:"cancel_at"` // index of the callback event inside which the context is cancelled; -1 never; -2 before the run
	Styles     int    `json:"styles"`    // func kind: bit0 prep any-style, bit1 exec any-style, bit2 post any-style
	ErrResult  bool   `json:"exec_error_result"` // func kind, result-style exec: success returns NewErrorResult(e), nil
	InFlow     bool   `json:"in_flow"`
	NilPtr     bool   `json:"typed_nil_pointer_payload"` // prep and exec return a typed nil pointer
	ErrPayload bool   `json:"error_typed_payload"`       // the prep value is itself a value of an error type (with a nil error return)
	CauseCtx   bool   `json:"cancel_with_cause"`         // the context is a WithCancelCause context cancelled with a custom cause
	OnDone     bool   `json:"cancel_when_wait_begins"`   // the context is cancelled at the moment Run asks for ctx.Done(), i.e. when the retry wait begins
	ErrBoth    bool   `json:"failing_exec_returns_error_result_and_error"` // func kind, result-style exec: a failing attempt returns NewErrorResult(e), e
	PostPanic  bool   `json:"post_panics"`                // the post callback panics
	FbNil      bool   `json:"fallback_returns_nil_nil"`   // the fallback recovers with a nil value and a nil error
	WaitFirst  bool   `json:"wait_configured_before_retries"` // WithWait is applied before WithMaxRetries
	MapPayload bool   `json:"map_payload"`                    // the prep value is a map[string]any (identity must be preserved)
	PostBoth   bool   `json:"post_returns_action_and_error"`  // post fails and returns a non-empty action next to its error
	Override   bool   `json:"retry_settings_by_overriding_getters"` // struct kind: GetMaxRetries/GetWait are overridden, the embedded BaseNode keeps its defaults
}

type lcEvent struct {
	name  string
	store *SharedStore
	prep  any
	exec  any
	err   error
	at    time.Time
	end   time.Time
}

type lcRec struct {
	sc       lcScenario
	events   []lcEvent
	cancel   context.CancelFunc
	pv       any
	execVals []any
	execErrs []error
	fbVal    any
	fbErr    error
	prepErr  error
	postErr  error
	errRes   error
}

func (r *lcRec) enter(name string, store *SharedStore, prep, exec any, err error) int {
	r.events = append(r.events, lcEvent{name: name, store: store, prep: prep, exec: exec, err: err, at: time.Now()})
	i := len(r.events) - 1
	if r.sc.CancelAt == i && r.cancel != nil {
		r.cancel()
	}
	return i
}
func (r *lcRec) leave(i int) { r.events[i].end = time.Now() }

func (r *lcRec) doPrep(s *SharedStore) (any, error) {
	i := r.enter("prep", s, nil, nil, nil)
	defer r.leave(i)
	if r.sc.PrepErr {
		return nil, r.prepErr
	}
	return r.pv, nil
}
func (r *lcRec) doExec(p any) (any, error) {
	i := r.enter("exec", nil, p, nil, nil)
	defer r.leave(i)
	k := len(r.execVals)
	fail := false
	if len(r.sc.ExecFail) > 0 {
		if k < len(r.sc.ExecFail) {
			fail = r.sc.ExecFail[k]
		} else {
			fail = r.sc.ExecFail[len(r.sc.ExecFail)-1]
		}
	}
	v := fmt.Sprintf("exec-value-%d", k)
	if fail {
		e := fmt.Errorf("exec-error-%d", k)
		r.execVals = append(r.execVals, nil)
		r.execErrs = append(r.execErrs, e)
		return nil, e
	}
	r.execVals = append(r.execVals, v)
	r.execErrs = append(r.execErrs, nil)
	return v, nil
}
func (r *lcRec) doFallback(p any, e error) (any, error) {
	i := r.enter("fallback", nil, p, nil, e)
	defer r.leave(i)
	if r.sc.FbErr {
		return nil, r.fbErr
	}
	if r.sc.FbNil {
		return nil, nil
	}
	return r.fbVal, nil
}
func (r *lcRec) doPost(s *SharedStore, p, x any) (Action, error) {
	i := r.enter("post", s, p, x, nil)
	defer r.leave(i)
	if r.sc.PostErr {
		if r.sc.PostBoth {
			return Action(r.sc.PostAction), r.postErr
		}
		return "", r.postErr
	}
	if r.sc.PostPanic {
		panic("post callback panics")
	}
	return Action(r.sc.PostAction), nil
}

type lcStructNode struct {
	*BaseNode
	r *lcRec
}

func (n *lcStructNode) Prep(ctx context.Context, s *SharedStore) (any, error) { return n.r.doPrep(s) }
func (n *lcStructNode) Exec(ctx context.Context, p any) (any, error)          { return n.r.doExec(p) }
func (n *lcStructNode) Post(ctx context.Context, s *SharedStore, p, x any) (Action, error) {
	return n.r.doPost(s, p, x)
}

type lcStructNodeFB struct{ lcStructNode }

func (n *lcStructNodeFB) ExecFallback(p any, e error) (any, error) { return n.r.doFallback(p, e) }

type lcPlainNode struct{ r *lcRec }

func (n *lcPlainNode) Prep(ctx context.Context, s *SharedStore) (any, error) { return n.r.doPrep(s) }
func (n *lcPlainNode) Exec(ctx context.Context, p any) (any, error)          { return n.r.doExec(p) }
func (n *lcPlainNode) Post(ctx context.Context, s *SharedStore, p, x any) (Action, error) {
	return n.r.doPost(s, p, x)
}

type lcPlainNodeFB struct{ lcPlainNode }

func (n *lcPlainNodeFB) ExecFallback(p any, e error) (any, error) { return n.r.doFallback(p, e) }

func lifecycleScenarios() []lcScenario {
	var out []lcScenario
	scripts := [][]bool{{false}, {true}, {true, false}, {true, true, false}, {true, true, true}}
	for _, kind := range []string{"struct", "plain", "func"} {
		for _, fb := range []bool{false, true} {
			for _, n := range []int{1, 2, 3} {
				if kind == "plain" && n != 1 {
					continue
				}
				for _, ef := range scripts {
					for _, fbErr := range []bool{false, true} {
						if !fb && fbErr {
							continue
						}
						for _, post := range []string{"", "next", "ERR"} {
							base := lcScenario{Kind: kind, Fallback: fb, N: n, ExecFail: ef, FbErr: fbErr, PostAction: post, CancelAt: -1}
							if post == "ERR" {
								base.PostErr, base.PostAction = true, ""
							}
							styles := []int{0}
							if kind == "func" {
								styles = []int{0, 1, 2, 4, 7}
							}
							for _, st := range styles {
								sc := base
								sc.Styles = st
								out = append(out, sc)
								if kind == "func" && st&2 == 0 && ef[0] {
									sc5 := sc
									sc5.ErrBoth = true
									out = append(out, sc5)
								}
								if kind == "func" && st&2 == 0 && !ef[len(ef)-1] {
									sc2 := sc
									sc2.ErrResult = true
									out = append(out, sc2)
								}
								if kind == "func" && n == 1 && !fb {
									sc3 := sc
									sc3.NilPtr = true
									out = append(out, sc3)
									sc4 := sc
									sc4.ErrPayload = true
									out = append(out, sc4)
								}
							}
						}
					}
				}
			}
		}
	}
	// prep failure, cancellation points, waits, nesting
	var extra []lcScenario
	for _, sc := range out {
		if sc.Kind != "struct" || sc.Styles != 0 {
			continue
		}
		p := sc
		p.PrepErr = true
		extra = append(extra, p)
		for c := -2; c <= 4; c++ {
			if c == -1 {
				continue
			}
			q := sc
			q.CancelAt = c
			extra = append(extra, q)
		}
		if sc.N >= 2 {
			w := sc
			w.WaitMs = 15
			extra = append(extra, w)
			w2 := w
			w2.CancelAt = 1
			extra = append(extra, w2)
			w3 := w2
			w3.CauseCtx = true
			extra = append(extra, w3)
			if sc.ExecFail[0] && sc.PostAction == "" && !sc.PostErr && !sc.FbErr {
				for _, cause := range []bool{false, true} {
					w4 := w
					w4.WaitMs, w4.OnDone, w4.CauseCtx = 400, true, cause
					extra = append(extra, w4)
				}
			}
		}
		f := sc
		f.InFlow = true
		extra = append(extra, f)
	}
	for _, kind := range []string{"struct", "func"} {
		for _, n := range []int{2, 3} {
			extra = append(extra, lcScenario{Kind: kind, N: n, WaitMs: 15, ExecFail: []bool{true, false}, CancelAt: -1, WaitFirst: true},
				lcScenario{Kind: kind, N: n, WaitMs: 15, ExecFail: []bool{true, true, true}, Fallback: true, CancelAt: -1, WaitFirst: true})
		}
		for _, n := range []int{1, 2} {
			extra = append(extra, lcScenario{Kind: kind, N: n, ExecFail: []bool{false}, CancelAt: -1, MapPayload: true, Styles: 0},
				lcScenario{Kind: kind, N: n, ExecFail: []bool{true, false}, Fallback: true, CancelAt: -1, MapPayload: true, Styles: 7})
		}
		for _, n := range []int{1, 2} {
			extra = append(extra, lcScenario{Kind: kind, N: n, ExecFail: []bool{true, true, true}, Fallback: true, FbNil: true, CancelAt: -1, PostAction: "next"})
		}
		extra = append(extra, lcScenario{Kind: kind, N: 1, ExecFail: []bool{false}, CancelAt: -1, PostErr: true, PostBoth: true, PostAction: "leaked"},
			lcScenario{Kind: kind, N: 1, ExecFail: []bool{false}, CancelAt: -1, PostAction: " "},
			lcScenario{Kind: kind, N: 1, ExecFail: []bool{false}, CancelAt: -1, PostAction: "\n\t"},
			lcScenario{Kind: kind, N: 2, ExecFail: []bool{true, false}, CancelAt: -2, CauseCtx: true},
			lcScenario{Kind: kind, N: 1, ExecFail: []bool{false}, CancelAt: -2, CauseCtx: true, InFlow: true})
		extra = append(extra, lcScenario{Kind: kind, N: 1, ExecFail: []bool{false}, CancelAt: -1, PostPanic: true},
			lcScenario{Kind: kind, N: 1, ExecFail: []bool{false}, CancelAt: -1, PostPanic: true, InFlow: true})
	}
	extra = append(extra, lcScenario{Kind: "special:plain-node-with-batch-concurrency", CancelAt: -1})
	for _, n := range []int{2, 3} {
		extra = append(extra, lcScenario{Kind: "struct", N: n, WaitMs: 15, ExecFail: []bool{true, false}, CancelAt: -1, Override: true},
			lcScenario{Kind: "struct", N: n, WaitMs: 15, ExecFail: []bool{true, true, true}, Fallback: true, CancelAt: -1, Override: true})
	}
	return append(out, extra...)
}

// lcOverrideNode configures its wait the documented RetryableNode way: by overriding GetWait (the embedded BaseNode keeps wait 0).
type lcOverrideNode struct {
	lcStructNode
	n int
	w time.Duration
}

func (n *lcOverrideNode) GetWait() time.Duration { return n.w }

type lcOverrideNodeFB struct{ lcOverrideNode }

func (n *lcOverrideNodeFB) ExecFallback(p any, e error) (any, error) { return n.r.doFallback(p, e) }

// samePayload: identity of payloads; maps (not comparable with ==) by their header pointer.
func samePayload(a, b any) bool {
	va, vb := reflect.ValueOf(a), reflect.ValueOf(b)
	if va.IsValid() && vb.IsValid() && va.Kind() == reflect.Map && vb.Kind() == reflect.Map {
		return va.Type() == vb.Type() && va.Pointer() == vb.Pointer()
	}
	return a == b
}

// plainNodeWithBatchConcurrency: WithBatchConcurrency on a NewNode() node does not turn it into a batch.
func plainNodeWithBatchConcurrency() string {
	return guard(func() string {
		payload := []int{1, 2, 3}
		var execArgs []any
		var postPrep, postExec any
		n := NewNode().WithBatchConcurrency(2).
			WithPrepFuncAny(func(c context.Context, s *SharedStore) (any, error) { return payload, nil }).
			WithExecFuncAny(func(c context.Context, p any) (any, error) { execArgs = append(execArgs, p); return "exec-out", nil }).
			WithPostFuncAny(func(c context.Context, s *SharedStore, p, e any) (Action, error) { postPrep, postExec = p, e; return "next", nil })
		act, err := Run(context.Background(), n, NewSharedStore())
		if err != nil || act != "next" {
			return fmt.Sprintf("C01: %v / %q", err, act)
		}
		if len(execArgs) != 1 || !reflect.DeepEqual(execArgs[0], payload) {
			return fmt.Sprintf("C01/C17: a plain function-style node with WithBatchConcurrency(2) and a slice as prep value: exec was called %d time(s) with %v, want once with the prep value %v", len(execArgs), execArgs, payload)
		}
		if !reflect.DeepEqual(postPrep, payload) || postExec != "exec-out" {
			return fmt.Sprintf("C01/C17: post received (%v, %v), want the prep value and exec's result", postPrep, postExec)
		}
		return ""
	})
}

func runLifecycle(sc lcScenario, prop string) string {
	if sc.Kind == "special:plain-node-with-batch-concurrency" {
		if !wants(prop, "C01", "C17") {
			return ""
		}
		return plainNodeWithBatchConcurrency()
	}
	return guard(func() string {
		var pv any = &struct{ tag string }{"prep-value"}
		if sc.NilPtr {
			pv = (*vrUser)(nil)
		}
		if sc.ErrPayload {
			pv = errors.New("a recorded error used as a payload")
		}
		if sc.MapPayload {
			pv = map[string]any{"k": 1}
		}
		r := &lcRec{sc: sc, pv: pv, fbVal: "fallback-value",
			prepErr: errors.New("prep-error"), fbErr: errors.New("fallback-error"), postErr: errors.New("post-error"), errRes: errors.New("error-result")}
		ctx, cancel := context.WithCancel(context.Background())
		defer cancel()
		r.cancel = cancel
		if sc.CauseCtx {
			cctx, ccancel := context.WithCancelCause(context.Background())
			defer ccancel(nil)
			ctx, r.cancel = cctx, func() { ccancel(errors.New("operator requested shutdown")) }
		}
		if sc.CancelAt == -2 {
			r.cancel()
		}
		if sc.OnDone {
			ctx = &lcHookCtx{Context: ctx, onDone: r.cancel}
		}
		started := time.Now()
		store := NewSharedStore()
		var node Node
		opts := []NodeOption{WithMaxRetries(sc.N), WithWait(time.Duration(sc.WaitMs) * time.Millisecond)}
		if sc.WaitFirst {
			opts[0], opts[1] = opts[1], opts[0]
		}
		retryable := true
		switch sc.Kind {
		case "struct":
			if sc.Override {
				base := lcOverrideNode{lcStructNode{NewBaseNode(WithMaxRetries(sc.N)), r}, sc.N, time.Duration(sc.WaitMs) * time.Millisecond}
				if sc.Fallback {
					node = &lcOverrideNodeFB{base}
				} else {
					node = &base
				}
			} else if sc.Fallback {
				node = &lcStructNodeFB{lcStructNode{NewBaseNode(opts...), r}}
			} else {
				// BaseNode has a default ExecFallback that returns the error unchanged
				node = &lcStructNode{NewBaseNode(opts...), r}
			}
		case "plain":
			retryable = false
			if sc.Fallback {
				node = &lcPlainNodeFB{lcPlainNode{r}}
			} else {
				node = &lcPlainNode{r}
			}
		case "func":
			b := NewNode().WithMaxRetries(sc.N).WithWait(time.Duration(sc.WaitMs) * time.Millisecond)
			if sc.WaitFirst {
				b = NewNode().WithWait(time.Duration(sc.WaitMs) * time.Millisecond).WithMaxRetries(sc.N)
			}
			if sc.Styles&1 != 0 {
				b.WithPrepFuncAny(func(c context.Context, s *SharedStore) (any, error) { return r.doPrep(s) })
			} else {
				b.WithPrepFunc(func(c context.Context, s *SharedStore) (Result, error) {
					v, e := r.doPrep(s)
					if e != nil {
						return Result{}, e
					}
					return NewResult(v), nil
				})
			}
			if sc.Styles&2 != 0 {
				b.WithExecFuncAny(func(c context.Context, p any) (any, error) { return r.doExec(p) })
			} else {
				b.WithExecFunc(func(c context.Context, p Result) (Result, error) {
					if p.IsError() {
						return Result{}, fmt.Errorf("exec received an error result for the prep value")
					}
					v, e := r.doExec(p.Value())
					if e != nil {
						if sc.ErrBoth {
							return NewErrorResult(e), e
						}
						return Result{}, e
					}
					if sc.ErrResult {
						return NewErrorResult(r.errRes), nil
					}
					return NewResult(v), nil
				})
			}
			if sc.Styles&4 != 0 {
				b.WithPostFuncAny(func(c context.Context, s *SharedStore, p, x any) (Action, error) { return r.doPost(s, p, x) })
			} else {
				b.WithPostFunc(func(c context.Context, s *SharedStore, p, x Result) (Action, error) {
					if x.IsError() {
						return r.doPost(s, p.Value(), x)
					}
					return r.doPost(s, p.Value(), x.Value())
				})
			}
			if sc.Fallback {
				b.WithExecFallbackFunc(func(p any, e error) (any, error) { return r.doFallback(p, e) })
			}
			node = b
		}
		var act Action
		var err error
		if sc.PostPanic {
			// a panicking callback is no success: on the original code the panic leaves Run
			returned := false
			func() {
				defer func() { recover() }()
				if sc.InFlow {
					err = NewFlow(node).Run(ctx, store)
					if err == nil {
						act = "flow-ok"
					}
				} else {
					act, err = Run(ctx, node, store)
				}
				returned = true
			}()
			if returned && err == nil && wants(prop, "C01", "C04", "C18") {
				return fmt.Sprintf("C18/C04: the post callback panicked, yet the run returned (%q, nil): a success with action %q", act, act)
			}
			return ""
		}
		if sc.InFlow {
			fl := NewFlow(node)
			err = fl.Run(ctx, store)
			if err == nil {
				act = "flow-ok"
			}
		} else {
			act, err = Run(ctx, node, store)
		}
		if sc.OnDone && !wants(prop, "C20", "C05") {
			return "" // the general oracle does not model a cancellation that arrives when the wait begins
		}
		if sc.OnDone {
			if el := time.Since(started); el >= time.Duration(sc.WaitMs)*time.Millisecond {
				return fmt.Sprintf("C20: cancelled when the %dms retry wait began, Run returned only after %v (slept out the wait)", sc.WaitMs, el)
			}
			if err == nil || !errors.Is(err, ctx.Err()) {
				return fmt.Sprintf("C20: cancelled when the retry wait began; Run returned (%q, %v), which does not match ctx.Err() = %v", act, err, ctx.Err())
			}
			if n := len(r.execVals); n != 1 {
				return fmt.Sprintf("C20: cancelled when the first retry wait began, yet %d exec attempts were made", n)
			}
			return ""
		}
		return lifecycleOracle(sc, r, store, retryable, act, err, ctx, prop)
	})
}

// lcHookCtx cancels the context at the moment the code under test asks for Done().
type lcHookCtx struct {
	context.Context
	onDone func()
	once   sync.Once
}

func (h *lcHookCtx) Done() <-chan struct{} {
	h.once.Do(h.onDone)
	return h.Context.Done()
}

func lifecycleOracle(sc lcScenario, r *lcRec, store *SharedStore, retryable bool, act Action, err error, ctx context.Context, prop string) string {
	N := 1
	if retryable {
		N = sc.N
	}
	var preps, execs, fbs, posts []lcEvent
	cancelledAfter := -1 // index of the event during which the context was cancelled
	for i, e := range r.events {
		switch e.name {
		case "prep":
			preps = append(preps, e)
		case "exec":
			execs = append(execs, e)
		case "fallback":
			fbs = append(fbs, e)
		case "post":
			posts = append(posts, e)
		}
		if sc.CancelAt == i {
			cancelledAfter = i
		}
	}
	cancelled := sc.CancelAt == -2 || cancelledAfter >= 0
	hasFallback := sc.Fallback || sc.Kind == "struct" || sc.Kind == "func" // BaseNode / CustomNode provide a default fallback returning the error
	userFallback := sc.Fallback
	// ---- C20: cancellation that arrives before / during the retry wait ends the run with the context's error
	if wants(prop, "C20") && sc.WaitMs > 0 && cancelledAfter >= 0 && !sc.InFlow && r.events[cancelledAfter].name == "exec" {
		k := 0
		for i := 0; i < cancelledAfter; i++ {
			if r.events[i].name == "exec" {
				k++
			}
		}
		if k < len(r.execErrs) && r.execErrs[k] != nil && k < N-1 {
			if err == nil || !errors.Is(err, ctx.Err()) {
				return fmt.Sprintf("C20: cancelled while attempt %d was failing, so the retry wait was interrupted; Run returned (%q, %v), which does not match ctx.Err() = %v", k, act, err, ctx.Err())
			}
			if len(execs) > k+1 {
				return fmt.Sprintf("C20: a further attempt started although the context was cancelled before the wait")
			}
		}
	}
	// ---- C05
	if wants(prop, "C05") {
		if sc.CancelAt == -2 {
			if len(r.events) != 0 {
				return fmt.Sprintf("C05: context done before the run, yet %d callbacks ran (first: %s)", len(r.events), r.events[0].name)
			}
			if err == nil || !errors.Is(err, ctx.Err()) {
				return fmt.Sprintf("C05: context done before the run, error %v does not match ctx.Err()", err)
			}
		}
		if cancelledAfter >= 0 {
			for i := cancelledAfter + 1; i < len(r.events); i++ {
				if r.events[i].name == "exec" {
					return fmt.Sprintf("C05: exec attempt started (event %d) after the context was cancelled inside event %d (%s)", i, cancelledAfter, r.events[cancelledAfter].name)
				}
			}
			// cancellation inside prep, or inside a failing attempt that is not the last one, cuts the run short:
			// no fallback, no post, and the error matches the context's error
			ce := r.events[cancelledAfter]
			short := false
			if ce.name == "prep" && !sc.PrepErr {
				short = true
			}
			if ce.name == "exec" {
				k := 0
				for i := 0; i < cancelledAfter; i++ {
					if r.events[i].name == "exec" {
						k++
					}
				}
				if k < len(r.execErrs) && r.execErrs[k] != nil && k < N-1 {
					short = true
				}
			}
			if short && !sc.InFlow {
				if len(fbs) > 0 || len(posts) > 0 {
					return fmt.Sprintf("C05: context cancelled inside %s (event %d) with attempts left, yet fallback ran %d and post %d time(s)", ce.name, cancelledAfter, len(fbs), len(posts))
				}
				if err == nil || !errors.Is(err, ctx.Err()) {
					return fmt.Sprintf("C05: run cut short by cancellation inside %s returned (%q, %v), not an error matching ctx.Err()", ce.name, act, err)
				}
			}
			cutShort := len(posts) == 0 && !sc.PrepErr && !(len(execs) > 0 && r.execErrs[len(execs)-1] != nil && len(execs) == N)
			if cutShort && !sc.InFlow {
				if err == nil || !errors.Is(err, ctx.Err()) {
					// a run that ended because of its own failure reports that failure; otherwise it must report the cancellation
					own := false
					for _, e := range []error{r.prepErr, r.fbErr, r.postErr} {
						if err != nil && errors.Is(err, e) {
							own = true
						}
					}
					for _, e := range r.execErrs {
						if e != nil && err != nil && errors.Is(err, e) {
							own = true
						}
					}
					if !own {
						return fmt.Sprintf("C05: run cut short by cancellation returned %v, not an error matching ctx.Err()", err)
					}
				}
			}
		}
	}
	if cancelledAfter >= 0 && wants(prop, "C01") && r.events[cancelledAfter].name == "exec" {
		// a cancellation that arrives inside an exec attempt which nevertheless succeeds does not undo the result: post still runs
		k := 0
		for i := 0; i < cancelledAfter; i++ {
			if r.events[i].name == "exec" {
				k++
			}
		}
		if k < len(r.execErrs) && r.execErrs[k] == nil && len(posts) != 1 {
			return fmt.Sprintf("C01: exec attempt %d produced a result without error (the context was cancelled while it ran) but post ran %d times; run returned (%q, %v)", k, len(posts), act, err)
		}
	}
	if cancelled {
		// the remaining clauses describe uncancelled runs (C01's exactly-one-of still holds)
		if wants(prop, "C01", "C18") && !sc.InFlow {
			if (err == nil) == (act == "") {
				return fmt.Sprintf("C01: run returned action %q with error %v (exactly one expected)", act, err)
			}
		}
		return ""
	}
	// ---- expected behaviour from the property text
	expAttempts := 0
	execOK := false
	if !sc.PrepErr {
		for k := 0; k < N; k++ {
			expAttempts++
			fail := false
			if len(sc.ExecFail) > 0 {
				if k < len(sc.ExecFail) {
					fail = sc.ExecFail[k]
				} else {
					fail = sc.ExecFail[len(sc.ExecFail)-1]
				}
			}
			if !fail {
				execOK = true
				break
			}
		}
	}
	expFallback := !sc.PrepErr && !execOK && userFallback
	phaseOK := !sc.PrepErr && (execOK || (expFallback && !sc.FbErr))
	expPost := phaseOK
	expSuccess := expPost && !sc.PostErr
	if wants(prop, "C01", "C17") {
		if len(preps) != 1 {
			return fmt.Sprintf("C01: prep called %d times", len(preps))
		}
		if preps[0].store != store {
			return "C01: prep did not receive the store given to the run"
		}
		for i, e := range execs {
			if !samePayload(e.prep, r.pv) {
				return fmt.Sprintf("C01/C17: exec attempt %d received %v instead of the value prep returned", i, e.prep)
			}
		}
		if len(posts) > 1 {
			return fmt.Sprintf("C01: post called %d times", len(posts))
		}
		if expPost != (len(posts) == 1) {
			return fmt.Sprintf("C01: post ran=%v but the exec phase produced a result=%v", len(posts) == 1, expPost)
		}
		if len(posts) == 1 {
			p := posts[0]
			if p.store != store || !samePayload(p.prep, r.pv) {
				return "C01: post did not receive the run's store and the prep value"
			}
			var want any
			if execOK {
				want = r.execVals[len(r.execVals)-1]
				if sc.ErrResult {
					want = nil
				}
			} else {
				want = r.fbVal
				if sc.FbNil {
					want = nil
				}
			}
			if sc.ErrResult && execOK {
				x, ok := p.exec.(Result)
				if !ok || !x.IsError() || x.Error() != r.errRes {
					return fmt.Sprintf("C17: exec returned an error result, post received %#v", p.exec)
				}
			} else if p.exec != want {
				return fmt.Sprintf("C01/C17: post received exec result %#v, want %#v", p.exec, want)
			}
		}
	}
	if wants(prop, "C01", "C18") && !sc.InFlow {
		if (err == nil) == (act == "") {
			return fmt.Sprintf("C01/C18: run returned action %q with error %v (exactly one expected)", act, err)
		}
		if err == nil {
			want := Action(sc.PostAction)
			if want == "" {
				want = DefaultAction
			}
			if act != want {
				return fmt.Sprintf("C01/C18: run returned action %q, want %q", act, want)
			}
		}
	}
	if wants(prop, "C02") {
		if len(execs) != expAttempts {
			return fmt.Sprintf("C02: %d exec attempts, want %d (budget %d, script %v)", len(execs), expAttempts, N, sc.ExecFail)
		}
		if expFallback != (len(fbs) == 1) || len(fbs) > 1 {
			return fmt.Sprintf("C02: fallback called %d times, expected=%v", len(fbs), expFallback)
		}
		if len(fbs) == 1 {
			if !samePayload(fbs[0].prep, r.pv) {
				return "C02: fallback did not receive the prep value"
			}
			if fbs[0].err != r.execErrs[len(r.execErrs)-1] {
				return fmt.Sprintf("C02: fallback received error %v, want the last attempt's error %v", fbs[0].err, r.execErrs[len(r.execErrs)-1])
			}
			// the fallback's outcome replaces the exec outcome
			if sc.FbErr && !sc.InFlow && (err == nil || !errors.Is(err, r.fbErr)) {
				return fmt.Sprintf("C02: the fallback failed with %q; its outcome replaces the exec outcome, but the run returned %v", r.fbErr, err)
			}
			if !sc.FbErr && !sc.PostErr && !sc.PostPanic && err != nil {
				return fmt.Sprintf("C02: the fallback recovered (value %v, nil error), yet the run returned %v", r.fbVal, err)
			}
		}
	}
	_ = hasFallback
	if wants(prop, "C04") {
		if (err == nil) != expSuccess {
			return fmt.Sprintf("C04: error %v, but all phases succeeded=%v", err, expSuccess)
		}
		if err != nil {
			var cause error
			switch {
			case sc.PrepErr:
				cause = r.prepErr
			case !execOK && !expFallback:
				cause = r.execErrs[len(r.execErrs)-1]
			case !execOK && sc.FbErr:
				cause = r.fbErr
			case sc.PostErr:
				cause = r.postErr
			}
			if cause != nil && !errors.Is(err, cause) {
				return fmt.Sprintf("C04: returned error %q does not match the callback's error %q under errors.Is", err, cause)
			}
		}
	}
	if wants(prop, "C20") && sc.WaitMs > 0 {
		for i := 1; i < len(execs); i++ {
			gap := execs[i].at.Sub(execs[i-1].end)
			if gap < time.Duration(sc.WaitMs)*time.Millisecond {
				return fmt.Sprintf("C20: only %v between the end of attempt %d and the start of attempt %d (wait %dms)", gap, i-1, i, sc.WaitMs)
			}
		}
	}
	return ""
}

// ------------------------------------------------------------------ flows

type flScenario struct {
	Nodes    int        `json:"nodes"`
	Connects [][3]int   `json:"connects"` // from, action index, to (-1 = nil)
	Scripts  [][]int    `json:"scripts"`  // per node: action index per visit (beyond: 9 = unconnected)
	Nested   int        `json:"nested"`   // index of the node replaced by a one-node inner flow (-1 none)
	FailAt   int        `json:"fail_at"`  // visit index whose exec fails (-1 none)
	CancelAt int        `json:"cancel_at"`
	Runs     int        `json:"runs"`
	Special  string     `json:"special,omitempty"` // rewire-inside-node | nested-empty-batch | cancel-then-batch | inner-connected-after-wiring | node-in-two-single-node-flows
	CtxLikeErr bool     `json:"failing_node_error_wraps_deadline_exceeded,omitempty"` // the run's own context stays alive
}

type flNode struct {
	*BaseNode
	id     int
	log    *[]int
	script []int
	visits *int
	failAt int
	total  *int
	cancel context.CancelFunc
	cancelAt int
	stores *[]*SharedStore
	errv   error
}

func (n *flNode) Prep(ctx context.Context, s *SharedStore) (any, error) {
	*n.stores = append(*n.stores, s)
	return nil, nil
}
func (n *flNode) Exec(ctx context.Context, p any) (any, error) {
	*n.log = append(*n.log, n.id)
	k := *n.total
	*n.total = k + 1
	if k == n.cancelAt {
		n.cancel()
	}
	if k == n.failAt {
		return nil, n.errv
	}
	return nil, nil
}
func (n *flNode) Post(ctx context.Context, s *SharedStore, p, x any) (Action, error) {
	v := *n.visits
	*n.visits = v + 1
	a := 9
	if v < len(n.script) {
		a = n.script[v]
	}
	return Action(fmt.Sprintf("a%d", a)), nil
}

func flowScenarios() []flScenario {
	var out []flScenario
	targets := []int{-2, -1, 0, 1, 2} // -2 unconnected, -1 nil
	// two nodes, two actions each, all connection tables; scripts a0,a1 alternating
	for t00 := range targets {
		for t01 := range targets {
			for t10 := range targets {
				var cs [][3]int
				add := func(f, a, ti int) {
					if targets[ti] != -2 && targets[ti] < 3 {
						cs = append(cs, [3]int{f, a, targets[ti]})
					}
				}
				add(0, 0, t00)
				add(0, 1, t01)
				add(1, 0, t10)
				sc := flScenario{Nodes: 3, Connects: cs, Scripts: [][]int{{0, 1, 0}, {0, 0}, {1}}, Nested: -1, FailAt: -1, CancelAt: -1, Runs: 1}
				out = append(out, sc)
			}
		}
	}
	// overwrites, self loops, repeated runs, nesting, failures and cancellation
	base := flScenario{Nodes: 3, Connects: [][3]int{{0, 0, 1}, {1, 0, 2}, {0, 0, 2}, {2, 1, 0}, {0, 1, 0}}, Scripts: [][]int{{0, 1, 0}, {0}, {1, 9}}, Nested: -1, FailAt: -1, CancelAt: -1, Runs: 1}
	out = append(out, base)
	for runs := 2; runs <= 3; runs++ {
		b := base
		b.Runs = runs
		out = append(out, b)
	}
	for nested := 0; nested < 3; nested++ {
		b := base
		b.Nested = nested
		out = append(out, b)
	}
	out = append(out, flScenario{Nested: -9, FailAt: -1, CancelAt: -1, Runs: 1})
	out = append(out, flScenario{Special: "rewire-inside-node", Nested: -1, FailAt: -1, CancelAt: -1, Runs: 1}, flScenario{Special: "nested-empty-batch", Nested: -1, FailAt: -1, CancelAt: -1, Runs: 1},
		flScenario{Special: "cancel-then-batch", Nested: -1, FailAt: -1, CancelAt: -1, Runs: 1})
	for k := 0; k < 4; k++ {
		b := base
		b.FailAt = k
		out = append(out, b)
		c := base
		c.CancelAt = k
		out = append(out, c)
		d := base
		d.Nested = 2
		d.FailAt = k
		out = append(out, d)
		e := b
		e.CtxLikeErr = true
		out = append(out, e)
		g := d
		g.CtxLikeErr = true
		out = append(out, g)
	}
	out = append(out, flScenario{Special: "inner-connected-after-wiring", Nested: -1, FailAt: -1, CancelAt: -1, Runs: 1},
		flScenario{Special: "node-in-two-single-node-flows", Nested: -1, FailAt: -1, CancelAt: -1, Runs: 1},
		flScenario{Special: "flow-with-its-own-retry-budget", Nested: -1, FailAt: -1, CancelAt: -1, Runs: 1},
		flScenario{Special: "zero-size-node-types", Nested: -1, FailAt: -1, CancelAt: -1, Runs: 1},
		flScenario{Special: "inner-flow-context-outlives-it", Nested: -1, FailAt: -1, CancelAt: -1, Runs: 1},
		flScenario{Special: "empty-action-edge", Nested: -1, FailAt: -1, CancelAt: -1, Runs: 1},
		flScenario{Special: "cancel-in-last-node", Nested: -1, FailAt: -1, CancelAt: -1, Runs: 1},
		flScenario{Special: "flows-have-their-own-base-node", Nested: -1, FailAt: -1, CancelAt: -1, Runs: 1})
	return out
}

// nilEndedInnerFlow: an inner flow A -x-> B, B -done-> nil is embedded in a parent that routes "done" and "x" differently.
func nilEndedInnerFlow() string {
	return guard(func() string {
		var log []string
		mk := func(name string, act Action) Node {
			return NewNode().WithExecFuncAny(func(ctx context.Context, p any) (any, error) { log = append(log, name); return nil, nil }).
				WithPostFuncAny(func(ctx context.Context, s *SharedStore, p, e any) (Action, error) { return act, nil })
		}
		a, b, x, y := mk("a", "x"), mk("b", "done"), mk("X", "end"), mk("Y", "end")
		inner := NewFlow(a)
		inner.Connect(a, "x", b)
		inner.Connect(b, "done", nil)
		outer := NewFlow(inner)
		outer.Connect(inner, "x", x)
		outer.Connect(inner, "done", y)
		outer.Connect(inner, DefaultAction, x)
		if err := outer.Run(context.Background(), NewSharedStore()); err != nil {
			return "C10: " + err.Error()
		}
		if got := strings.Join(log, " "); got != "a b Y" {
			return fmt.Sprintf("C10: nested flow ending through a connection to nil presented the wrong action: visited %q, the flattened machine visits \"a b Y\"", got)
		}
		return ""
	})
}

// rewireInsideNode: node a has no connection when it starts; its post connects (a, "go") to b and returns "go".
func rewireInsideNode() string {
	return guard(func() string {
		var log []string
		var fl *Flow
		var a, b Node
		b = NewNode().WithExecFuncAny(func(ctx context.Context, p any) (any, error) { log = append(log, "b"); return nil, nil })
		a = NewNode().WithExecFuncAny(func(ctx context.Context, p any) (any, error) { log = append(log, "a"); return nil, nil }).
			WithPostFuncAny(func(ctx context.Context, s *SharedStore, p, e any) (Action, error) {
				fl.Connect(a, "go", b)
				return "go", nil
			})
		fl = NewFlow(a)
		if err := fl.Run(context.Background(), NewSharedStore()); err != nil {
			return "C03: " + err.Error()
		}
		if got := strings.Join(log, " "); got != "a b" {
			return fmt.Sprintf("C03: node a finished with action \"go\" and (a, go) was then connected to b (connected from inside a's post), yet the flow visited %q instead of \"a b\"", got)
		}
		return ""
	})
}

// nestedEmptyBatch: an inner flow whose last node is a batch with no items and a post that returns "";
// the parent routes the inner flow on DefaultAction.
func nestedEmptyBatch() string {
	return guard(func() string {
		run := func(nested bool) (string, error) {
			var log []string
			batch := NewBatchNode().
				WithPrepFunc(func(c context.Context, s *SharedStore) ([]Result, error) { log = append(log, "batch"); return nil, nil }).
				WithExecFunc(func(c context.Context, item Result) (Result, error) { return item, nil }).
				WithPostFunc(func(c context.Context, s *SharedStore, items, results []Result) (Action, error) { return "", nil })
			y := NewNode().WithExecFuncAny(func(ctx context.Context, p any) (any, error) { log = append(log, "Y"); return nil, nil })
			var first Node = batch
			if nested {
				first = NewFlow(batch)
			}
			outer := NewFlow(first)
			outer.Connect(first, DefaultAction, y)
			err := outer.Run(context.Background(), NewSharedStore())
			return strings.Join(log, " "), err
		}
		flat, err1 := run(false)
		nest, err2 := run(true)
		if err1 != nil || err2 != nil {
			return fmt.Sprintf("C10: %v / %v", err1, err2)
		}
		if flat != nest || nest != "batch Y" {
			return fmt.Sprintf("C10/C18: a batch with no items whose post returns \"\", routed on the default action: the flattened machine visits %q, the nested arrangement %q (both should visit \"batch Y\")", flat, nest)
		}
		return ""
	})
}

// cancelThenBatch: the context is cancelled inside the post of an ordinary node whose successor is a batch node.
func cancelThenBatch() string {
	return guard(func() string {
		ctx, cancel := context.WithCancel(context.Background())
		defer cancel()
		var log []string
		a := NewNode().WithExecFuncAny(func(ctx context.Context, p any) (any, error) { log = append(log, "a"); return nil, nil }).
			WithPostFuncAny(func(ctx context.Context, s *SharedStore, p, e any) (Action, error) { cancel(); return DefaultAction, nil })
		batch := NewBatchNode().
			WithPrepFunc(func(c context.Context, s *SharedStore) ([]Result, error) { log = append(log, "batch.prep"); return nil, nil }).
			WithExecFunc(func(c context.Context, item Result) (Result, error) { log = append(log, "batch.exec"); return item, nil }).
			WithPostFunc(func(c context.Context, s *SharedStore, items, results []Result) (Action, error) {
				log = append(log, "batch.post")
				return DefaultAction, nil
			})
		fl := NewFlow(a)
		fl.Connect(a, DefaultAction, batch)
		err := fl.Run(ctx, NewSharedStore())
		if got := strings.Join(log, " "); got != "a" {
			return fmt.Sprintf("C05: the context was cancelled inside node a's post, yet the next node of the flow (a batch node) was started: callbacks %q", got)
		}
		if err == nil || !errors.Is(err, ctx.Err()) {
			return fmt.Sprintf("C05: flow cut short by cancellation returned %v", err)
		}
		return ""
	})
}

func flLogNode(log *[]string, name string, act Action) Node {
	return NewNode().WithExecFuncAny(func(ctx context.Context, p any) (any, error) { *log = append(*log, name); return nil, nil }).
		WithPostFuncAny(func(ctx context.Context, s *SharedStore, p, e any) (Action, error) { return act, nil })
}

// innerConnectedAfterWiring: the inner flow is wired into its parent while it still has no connection and gets
// its own connections afterwards; it must still run its whole path and present its last node's action.
func innerConnectedAfterWiring() string {
	return guard(func() string {
		var log []string
		s, n1, n2, tail := flLogNode(&log, "s", "next"), flLogNode(&log, "n1", "go"), flLogNode(&log, "n2", "end"), flLogNode(&log, "tail", "x")
		inner := NewFlow(n1)
		outer := NewFlow(s)
		outer.Connect(s, "next", inner)
		outer.Connect(inner, "end", tail)
		inner.Connect(n1, "go", n2)
		if err := outer.Run(context.Background(), NewSharedStore()); err != nil {
			return "C10: " + err.Error()
		}
		if got := strings.Join(log, " "); got != "s n1 n2 tail" {
			return fmt.Sprintf("C10: an inner flow that was connected after being wired into its parent: visited %q, the flattened machine visits \"s n1 n2 tail\"", got)
		}
		return ""
	})
}

// nodeInTwoSingleNodeFlows: the same node is used through two different single-node flows, each with its own continuation.
func nodeInTwoSingleNodeFlows() string {
	return guard(func() string {
		var log []string
		pick, work, a1, a2 := flLogNode(&log, "pick", "first"), flLogNode(&log, "work", "done"), flLogNode(&log, "afterFirst", "second"), flLogNode(&log, "afterSecond", "x")
		w1, w2 := NewFlow(work), NewFlow(work)
		outer := NewFlow(pick)
		outer.Connect(pick, "first", w1)
		outer.Connect(w1, "done", a1)
		outer.Connect(a1, "second", w2)
		outer.Connect(w2, "done", a2)
		if err := outer.Run(context.Background(), NewSharedStore()); err != nil {
			return "C10: " + err.Error()
		}
		if got := strings.Join(log, " "); got != "pick work afterFirst work afterSecond" {
			return fmt.Sprintf("C10/C03: one node reused through two single-node flows with different continuations: visited %q, want \"pick work afterFirst work afterSecond\"", got)
		}
		return ""
	})
}

// flowWithOwnRetryBudget: a flow is a node; given a retry budget of 3 its exec (the whole path) is re-attempted,
// whether it is started with flow.Run or with Run(ctx, flow, store).
func flowWithOwnRetryBudget() string {
	return guard(func() string {
		for _, viaMethod := range []bool{false, true} {
			attempts := 0
			n := NewNode().WithExecFuncAny(func(ctx context.Context, p any) (any, error) {
				attempts++
				if attempts < 2 {
					return nil, errors.New("first attempt fails")
				}
				return "ok", nil
			})
			fl := NewFlow(n)
			fl.BaseNode = NewBaseNode(WithMaxRetries(3))
			var err error
			if viaMethod {
				err = fl.Run(context.Background(), NewSharedStore())
			} else {
				_, err = Run(context.Background(), fl, NewSharedStore())
			}
			if err != nil || attempts != 2 {
				return fmt.Sprintf("C02: a flow with retry budget 3 whose first attempt fails and second succeeds (started with flow.Run: %v): %d attempt(s), error %v; want 2 attempts and success", viaMethod, attempts, err)
			}
		}
		return ""
	})
}

type zsNodeA struct{}
type zsNodeB struct{}

var zsLog []string

func (*zsNodeA) Prep(ctx context.Context, s *SharedStore) (any, error) { return nil, nil }
func (*zsNodeA) Exec(ctx context.Context, p any) (any, error)          { zsLog = append(zsLog, "A"); return nil, nil }
func (*zsNodeA) Post(ctx context.Context, s *SharedStore, p, e any) (Action, error) {
	return "next", nil
}
func (*zsNodeB) Prep(ctx context.Context, s *SharedStore) (any, error) { return nil, nil }
func (*zsNodeB) Exec(ctx context.Context, p any) (any, error)          { zsLog = append(zsLog, "B"); return nil, nil }
func (*zsNodeB) Post(ctx context.Context, s *SharedStore, p, e any) (Action, error) {
	return "next", nil
}

// zeroSizeNodeTypes: two nodes of different stateless types (their pointers may share an address) are different nodes.
func zeroSizeNodeTypes() string {
	return guard(func() string {
		zsLog = nil
		a, b := &zsNodeA{}, &zsNodeB{}
		var log []string
		end := flLogNode(&log, "end", "x")
		fl := NewFlow(a)
		fl.Connect(a, "next", b)
		fl.Connect(b, "next", end)
		if err := fl.Run(context.Background(), NewSharedStore()); err != nil {
			return "C03: " + err.Error()
		}
		if got := strings.Join(append(zsLog, log...), " "); got != "A B end" {
			return fmt.Sprintf("C03: two nodes of different zero-size types connected A -next-> B -next-> end: visited %q, want \"A B end\"", got)
		}
		return ""
	})
}

// innerFlowContextOutlivesIt: what a node inside an inner flow bound to its context is still usable by a later node of the parent.
func innerFlowContextOutlivesIt() string {
	return guard(func() string {
		var seen context.Context
		producer := NewNode().WithExecFuncAny(func(ctx context.Context, p any) (any, error) { seen = ctx; return nil, nil })
		var stale error
		consumer := NewNode().WithExecFuncAny(func(ctx context.Context, p any) (any, error) {
			if seen != nil {
				stale = seen.Err()
			}
			return nil, nil
		})
		inner := NewFlow(producer)
		outer := NewFlow(inner)
		outer.Connect(inner, DefaultAction, consumer)
		if err := outer.Run(context.Background(), NewSharedStore()); err != nil {
			return "C10: " + err.Error()
		}
		if stale != nil {
			return fmt.Sprintf("C10: the context a node of the inner flow ran under is already done (%v) when the parent's next node runs; in the flattened machine both nodes share one live context", stale)
		}
		return ""
	})
}

// emptyActionEdge: (n, "") and (n, "default") are different entries of the table.
func emptyActionEdge() string {
	return guard(func() string {
		var log []string
		a, x, y := flLogNode(&log, "a", ""), flLogNode(&log, "viaDefault", "end"), flLogNode(&log, "viaEmpty", "end")
		fl := NewFlow(a)
		fl.Connect(a, DefaultAction, x)
		fl.Connect(a, "", y)
		if err := fl.Run(context.Background(), NewSharedStore()); err != nil {
			return "C03: " + err.Error()
		}
		if got := strings.Join(log, " "); got != "a viaDefault" {
			return fmt.Sprintf("C03: Connect(a, \"default\", x) then Connect(a, \"\", y); a finishes with the default action: visited %q, want \"a viaDefault\"", got)
		}
		return ""
	})
}

// cancelInLastNode: a flow whose path has run to its end (through a connection to nil) has succeeded,
// also when the context was cancelled while its last node ran; nested or not.
func cancelInLastNode() string {
	return guard(func() string {
		for _, nested := range []bool{false, true} {
			ctx, cancel := context.WithCancel(context.Background())
			last := NewNode().WithPostFuncAny(func(c context.Context, s *SharedStore, p, e any) (Action, error) { cancel(); return "done", nil })
			fl := NewFlow(last)
			fl.Connect(last, "done", nil)
			var top Node = fl
			if nested {
				top = NewFlow(fl)
			}
			act, err := Run(ctx, top, NewSharedStore())
			cancel()
			if err != nil || act != "done" {
				return fmt.Sprintf("C10/C04: a flow (nested: %v) whose last node ends it through a connection to nil, context cancelled inside that node: Run = (%q, %v); every phase on the path succeeded and no node was left to start", nested, act, err)
			}
		}
		return ""
	})
}

// flowsHaveOwnBaseNode: configuring one flow as a retryable node leaves other flows alone.
func flowsHaveOwnBaseNode() string {
	return guard(func() string {
		var log []string
		f1, f2 := NewFlow(flLogNode(&log, "a", "x")), NewFlow(flLogNode(&log, "b", "x"))
		WithMaxRetries(4)(f1.BaseNode)
		defer WithMaxRetries(1)(f1.BaseNode)
		if f2.GetMaxRetries() != 1 || NewFlow(flLogNode(&log, "c", "x")).GetMaxRetries() != 1 {
			return fmt.Sprintf("C10/C19: giving one flow a retry budget of 4 changed other flows: %d", f2.GetMaxRetries())
		}
		return ""
	})
}

func runFlowScenario(sc flScenario, prop string) string {
	if sc.Nested == -9 {
		return nilEndedInnerFlow()
	}
	// each special scenario belongs to the properties it speaks about
	special := map[string]struct {
		props []string
		run   func() string
	}{
		"rewire-inside-node":             {[]string{"C03"}, rewireInsideNode},
		"nested-empty-batch":             {[]string{"C03", "C10", "C18"}, nestedEmptyBatch},
		"cancel-then-batch":              {[]string{"C05"}, cancelThenBatch},
		"inner-connected-after-wiring":   {[]string{"C03", "C10"}, innerConnectedAfterWiring},
		"node-in-two-single-node-flows":  {[]string{"C03", "C10"}, nodeInTwoSingleNodeFlows},
		"flow-with-its-own-retry-budget": {[]string{"C02"}, flowWithOwnRetryBudget},
		"zero-size-node-types":           {[]string{"C03"}, zeroSizeNodeTypes},
		"inner-flow-context-outlives-it": {[]string{"C10"}, innerFlowContextOutlivesIt},
		"empty-action-edge":              {[]string{"C03"}, emptyActionEdge},
		"cancel-in-last-node":            {[]string{"C04", "C10"}, cancelInLastNode},
		"flows-have-their-own-base-node": {[]string{"C10", "C19"}, flowsHaveOwnBaseNode},
	}
	if sp, ok := special[sc.Special]; ok {
		if !wants(prop, sp.props...) {
			return ""
		}
		return sp.run()
	}
	return guard(func() string {
		ctx, cancel := context.WithCancel(context.Background())
		defer cancel()
		var log []int
		var stores []*SharedStore
		total := 0
		boom := errors.New("node-failure")
		if sc.CtxLikeErr {
			boom = fmt.Errorf("node-level timeout: %w", context.DeadlineExceeded)
		}
		nodes := make([]Node, sc.Nodes)
		raw := make([]*flNode, sc.Nodes)
		for i := range nodes {
			visits := 0
			var script []int
			if i < len(sc.Scripts) {
				script = sc.Scripts[i]
			}
			raw[i] = &flNode{BaseNode: NewBaseNode(), id: i, log: &log, script: script, visits: &visits, failAt: sc.FailAt, total: &total, cancel: cancel, cancelAt: sc.CancelAt, stores: &stores, errv: boom}
			nodes[i] = raw[i]
		}
		if sc.Nested >= 0 && sc.Nested < sc.Nodes {
			nodes[sc.Nested] = NewFlow(raw[sc.Nested]) // a flow of one node presents that node's action
		}
		fl := NewFlow(nodes[0])
		table := map[[2]int]int{}
		for _, c := range sc.Connects {
			var to Node
			if c[2] >= 0 {
				to = nodes[c[2]]
			}
			fl.Connect(nodes[c[0]], Action(fmt.Sprintf("a%d", c[1])), to)
			table[[2]int{c[0], c[1]}] = c[2]
		}
		store := NewSharedStore()
		for run := 0; run < sc.Runs; run++ {
			start := len(log)
			visitsBefore := make([]int, sc.Nodes)
			for i := range raw {
				visitsBefore[i] = *raw[i].visits
			}
			err := fl.Run(ctx, store)
			// reference interpreter
			var exp []int
			cur := 0
			vis := append([]int(nil), visitsBefore...)
			k := start
			failed, cancelledRun := false, false
			for steps := 0; cur >= 0 && steps < 50; steps++ {
				if sc.CancelAt >= 0 && k > sc.CancelAt {
					cancelledRun = true
					break
				}
				exp = append(exp, cur)
				if k == sc.FailAt {
					failed = true
					break
				}
				k++
				a := 9
				if cur < len(sc.Scripts) && vis[cur] < len(sc.Scripts[cur]) {
					a = sc.Scripts[cur][vis[cur]]
				}
				vis[cur]++
				nx, ok := table[[2]int{cur, a}]
				if !ok {
					break
				}
				cur = nx
			}
			got := log[start:]
			if wants(prop, "C03", "C10", "C04", "C05") && fmt.Sprint(got) != fmt.Sprint(exp) {
				return fmt.Sprintf("C03: run %d visited nodes %v, the connection table and the returned actions determine %v", run, got, exp)
			}
			if wants(prop, "C04") {
				if failed && (err == nil || !errors.Is(err, boom)) {
					return fmt.Sprintf("C04: node failure at visit %d, flow returned %v", sc.FailAt, err)
				}
				if !failed && !cancelledRun && sc.CancelAt < 0 && err != nil {
					return fmt.Sprintf("C04: flow returned %v although every node succeeded", err)
				}
			}
			if wants(prop, "C05") && cancelledRun {
				if err == nil || !errors.Is(err, ctx.Err()) {
					return fmt.Sprintf("C05: flow cut short by cancellation returned %v", err)
				}
			}
			if failed || cancelledRun {
				break
			}
		}
		if wants(prop, "C10") {
			for _, s := range stores {
				if s != store {
					return "C10: a node (possibly inside a nested flow) did not run on the parent's store"
				}
			}
		}
		return ""
	})
}

// ------------------------------------------------------------------ batches

type btScenario struct {
	Items       int    `json:"items"`
	Concurrency int    `json:"concurrency"`
	Stop        bool   `json:"stop"`
	Retries     int    `json:"retries"`
	Fail        []int  `json:"fail"` // per item: number of failing attempts (>= retries: the item fails)
	Fallback    bool   `json:"fallback"`
	Payload     string `json:"payload"` // results | anys | ints | single | nil
	CancelIn    int    `json:"cancel_in_item"`
	PostAction  string `json:"post_action"`
	ErrResult   int    `json:"error_result_item"` // item whose exec returns an error Result with nil error (-1 none)
	FbFails     bool   `json:"fallback_fails"`
	CancelPrep  bool   `json:"cancel_inside_prep"`
	CtxWrapErr  bool   `json:"item_errors_wrap_deadline_exceeded"` // the items' own errors wrap context.DeadlineExceeded (the batch context stays alive)
	NilItem1    int    `json:"nil_valued_success_item_plus_1"`     // 1-based index of an item whose exec succeeds with a nil value (0 none)
	ErrItem1    int    `json:"error_result_item_from_prep_plus_1"` // 1-based index of an item that prep hands over as an error Result (0 none); exec recovers it
	ErrBoth     bool   `json:"failing_exec_returns_error_result_and_error"`
	CauseCtx    bool   `json:"cancel_with_cause"`
	MaxProcs    int    `json:"gomaxprocs"` // > 0: GOMAXPROCS is lowered to this for the run; every exec blocks until `concurrency` executions are in flight
	WaitMs      int    `json:"wait_ms"`
	SlowMs      int    `json:"slow_failing_attempt_ms"`
	Special     string `json:"special,omitempty"` // mode-change-between-runs | free-slot-takes-next-item
	Gate        string `json:"gate"` // "" | max-first | min-first: every exec attempt parks until a controller releases it; the controller releases the in-flight attempt with the highest / lowest item index once no new attempt arrives
}

func batchScenarios() []btScenario {
	var out []btScenario
	for _, n := range []int{0, 1, 3, 4} {
		for _, c := range []int{0, 1, 2} {
			for _, stop := range []bool{false, true} {
				for failPos := -1; failPos < n; failPos++ {
					fail := make([]int, n)
					if failPos >= 0 {
						fail[failPos] = 9
					}
					for _, payload := range []string{"results", "anys", "ints"} {
						if payload != "results" && (stop || failPos > 0) {
							continue
						}
						out = append(out, btScenario{Items: n, Concurrency: c, Stop: stop, Retries: 1, Fail: fail, Payload: payload, CancelIn: -1, ErrResult: -1})
					}
					for cancelIn := 0; cancelIn < n; cancelIn++ {
						out = append(out, btScenario{Items: n, Concurrency: c, Stop: stop, Retries: 2, Fail: fail, Payload: "results", CancelIn: cancelIn, ErrResult: -1})
					}
				}
				if n > 1 {
					out = append(out, btScenario{Items: n, Concurrency: c, Stop: stop, Retries: 3, Fail: []int{1, 2, 0, 9}[:n], Fallback: true, Payload: "results", CancelIn: -1, ErrResult: -1})
					out = append(out, btScenario{Items: n, Concurrency: c, Stop: stop, Retries: 1, Fail: make([]int, n), Payload: "results", CancelIn: -1, ErrResult: 1})
					out = append(out, btScenario{Items: n, Concurrency: c, Stop: stop, Retries: 2, Fail: []int{0, 9, 0, 0}[:n], Fallback: true, FbFails: true, Payload: "results", CancelIn: -1, ErrResult: -1})
					if !stop {
						out = append(out, btScenario{Items: n, Concurrency: c, Retries: 3, Fail: []int{2, 0, 1, 0}[:n], Payload: "results", CancelIn: -1, ErrResult: -1, WaitMs: 20, SlowMs: 40})
					}
				}
			}
		}
	}
	for _, gate := range []string{"max-first", "min-first"} {
		for _, stop := range []bool{false, true} {
			for _, c := range []int{2, 3} {
				out = append(out, btScenario{Items: 3, Concurrency: c, Stop: stop, Retries: 1, Fail: []int{9, 0, 0}, Payload: "results", CancelIn: -1, ErrResult: -1, Gate: gate},
					btScenario{Items: 4, Concurrency: c, Stop: stop, Retries: 1, Fail: []int{0, 0, 9, 0}, Payload: "results", CancelIn: -1, ErrResult: -1, Gate: gate},
					btScenario{Items: 2, Concurrency: c, Stop: stop, Retries: 3, Fail: []int{1, 9}, Payload: "results", CancelIn: -1, ErrResult: -1, Gate: gate},
					btScenario{Items: 3, Concurrency: c, Stop: stop, Retries: 2, Fail: []int{1, 9, 1}, Fallback: true, Payload: "results", CancelIn: -1, ErrResult: -1, Gate: gate})
			}
		}
	}
	for _, c := range []int{0, 2} {
		for _, stop := range []bool{false, true} {
			out = append(out, btScenario{Items: 3, Concurrency: c, Stop: stop, Retries: 1, Fail: []int{0, 0, 0}, Payload: "results", CancelIn: -1, ErrResult: -1, CancelPrep: true})
		}
	}
	for _, c := range []int{0, 2} {
		if c == 0 {
			for _, c1 := range []int{0, 1} {
				out = append(out, btScenario{Items: 3, Concurrency: c1, Stop: true, Retries: 1, Fail: []int{9, 0, 0}, Payload: "results", CancelIn: -1, ErrResult: -1, CtxWrapErr: true},
					btScenario{Items: 4, Concurrency: c1, Stop: true, Retries: 2, Fail: []int{0, 9, 0, 0}, Payload: "results", CancelIn: -1, ErrResult: -1, CtxWrapErr: true})
			}
		}
		out = append(out, btScenario{Items: 3, Concurrency: c, Retries: 1, Fail: []int{9, 0, 0}, Payload: "results", CancelIn: -1, ErrResult: -1, CtxWrapErr: true},
			btScenario{Items: 3, Concurrency: c, Retries: 2, Fail: []int{0, 9, 0}, Fallback: true, FbFails: true, Payload: "results", CancelIn: -1, ErrResult: -1, CtxWrapErr: true})
		for _, stop := range []bool{false, true} {
			out = append(out, btScenario{Items: 3, Concurrency: c, Stop: stop, Retries: 1, Fail: []int{0, 9, 0}, Payload: "results", CancelIn: -1, ErrResult: -1, NilItem1: 1, Gate: map[bool]string{true: "min-first"}[c > 0]})
		}
	}
	for _, c := range []int{0, 1, 2} {
		// typed slice outside ToSlice's fast paths, with zero-valued elements
		out = append(out, btScenario{Items: 5, Concurrency: c, Retries: 1, Fail: make([]int, 5), Payload: "int64s-with-zeros", CancelIn: -1, ErrResult: -1})
		// an item that is itself an error Result still gets its attempts and its fallback
		out = append(out, btScenario{Items: 4, Concurrency: c, Retries: 2, Fail: []int{0, 0, 1, 0}, Payload: "results", CancelIn: -1, ErrResult: -1, ErrItem1: 3},
			btScenario{Items: 4, Concurrency: c, Retries: 2, Fail: []int{0, 0, 9, 0}, Fallback: true, Payload: "results", CancelIn: -1, ErrResult: -1, ErrItem1: 3})
		// failure reported through both return values
		for _, stop := range []bool{false, true} {
			out = append(out, btScenario{Items: 4, Concurrency: c, Stop: stop, Retries: 1, Fail: []int{0, 9, 0, 0}, Payload: "results", CancelIn: -1, ErrResult: -1, ErrBoth: true})
		}
		// cancellation with a cause, from inside an item
		for _, stop := range []bool{false, true} {
			out = append(out, btScenario{Items: 3, Concurrency: c, Stop: stop, Retries: 1, Fail: make([]int, 3), Payload: "results", CancelIn: 1, ErrResult: -1, CauseCtx: true})
		}
	}
	out = append(out, btScenario{Items: 3, Concurrency: 3, Retries: 1, Fail: make([]int, 3), Payload: "results", CancelIn: -1, ErrResult: -1, MaxProcs: 2},
		btScenario{Items: 9, Concurrency: 4, Retries: 1, Fail: make([]int, 9), Payload: "results", CancelIn: -1, ErrResult: -1, MaxProcs: 2})
	for _, c := range []int{0, 1} {
		out = append(out, btScenario{Items: 4, Concurrency: c, Retries: 1, Payload: "results", CancelIn: -1, ErrResult: -1, Special: "mode-change-between-runs"})
	}
	for _, c := range []int{2, 3} {
		out = append(out, btScenario{Items: 2*c + 1, Concurrency: c, Retries: 1, Payload: "results", CancelIn: -1, ErrResult: -1, Special: "free-slot-takes-next-item"})
	}
	out = append(out, btScenario{Items: 0, Retries: 1, Payload: "results", CancelIn: -1, ErrResult: -1, Special: "empty-batch-post-error"})
	for _, c := range []int{0, 2} {
		out = append(out, btScenario{Items: 2, Concurrency: c, Retries: 2, Fail: []int{1, 0}, Payload: "results", CancelIn: -1, ErrResult: -1, WaitMs: 300})
	}
	out = append(out, btScenario{Items: 0, Payload: "nil", CancelIn: -1, ErrResult: -1, Retries: 1}, btScenario{Items: 1, Payload: "single", CancelIn: -1, ErrResult: -1, Retries: 1, Fail: []int{0}},
		btScenario{Items: 0, Payload: "results", CancelIn: -1, ErrResult: -1, Retries: 1, PostAction: "custom"})
	return out
}

// batchModeChangeBetweenRuns: one batch node object, first run in stop mode, then reconfigured to continue mode.
func batchModeChangeBetweenRuns(c int) string {
	return guard(func() string {
		executed := map[int]int{}
		var mu sync.Mutex
		b := NewBatchNode().WithBatchConcurrency(c).WithBatchErrorHandling(false).
			WithPrepFunc(func(ctx context.Context, s *SharedStore) ([]Result, error) {
				return []Result{NewResult(0), NewResult(1), NewResult(2), NewResult(3)}, nil
			}).
			WithExecFunc(func(ctx context.Context, item Result) (Result, error) {
				i, _ := item.AsInt()
				mu.Lock()
				executed[i]++
				mu.Unlock()
				if i == 1 {
					return Result{}, errors.New("item 1 fails")
				}
				return item, nil
			}).
			WithPostFunc(func(ctx context.Context, s *SharedStore, items, results []Result) (Action, error) { return "done", nil })
		if _, err := Run(context.Background(), b, NewSharedStore()); err != nil {
			return "C07: first run: " + err.Error()
		}
		b.WithBatchErrorHandling(true)
		executed = map[int]int{}
		if _, err := Run(context.Background(), b, NewSharedStore()); err != nil {
			return "C07: second run: " + err.Error()
		}
		for i := 0; i < 4; i++ {
			if executed[i] != 1 {
				return fmt.Sprintf("C07: a batch node run in stop mode, then set to continue on errors and run again: item %d was processed %d time(s) in the second run (item 1 fails), want 1", i, executed[i])
			}
		}
		return ""
	})
}

// batchFreeSlotTakesNextItem: item 0 blocks until item c has started; with c workers a free slot must pick up the next pending item.
func batchFreeSlotTakesNextItem(c, n int) string {
	return guard(func() string {
		started := make([]chan struct{}, n)
		for i := range started {
			started[i] = make(chan struct{})
		}
		var items []Result
		for i := 0; i < n; i++ {
			items = append(items, NewResult(i))
		}
		stuck := int32(0)
		b := NewBatchNode().WithBatchConcurrency(c).
			WithPrepFunc(func(ctx context.Context, s *SharedStore) ([]Result, error) { return items, nil }).
			WithExecFunc(func(ctx context.Context, item Result) (Result, error) {
				i, _ := item.AsInt()
				close(started[i])
				if i == 0 {
					select {
					case <-started[c]:
					case <-time.After(1500 * time.Millisecond):
						atomic.StoreInt32(&stuck, 1)
					}
				}
				return item, nil
			}).
			WithPostFunc(func(ctx context.Context, s *SharedStore, items, results []Result) (Action, error) { return "done", nil })
		if _, err := Run(context.Background(), b, NewSharedStore()); err != nil {
			return "C08: " + err.Error()
		}
		if atomic.LoadInt32(&stuck) == 1 {
			return fmt.Sprintf("C08: concurrency %d, %d items: while item 0 was blocked, item %d was not started although %d slot(s) were free (item 0 waited for it in vain)", c, n, c, c-1)
		}
		return ""
	})
}

func runBatchScenario(sc btScenario, prop string) string {
	switch sc.Special {
	case "mode-change-between-runs":
		if !wants(prop, "C07", "C09") {
			return ""
		}
		return batchModeChangeBetweenRuns(sc.Concurrency)
	case "free-slot-takes-next-item":
		if !wants(prop, "C08") {
			return ""
		}
		return batchFreeSlotTakesNextItem(sc.Concurrency, sc.Items)
	case "empty-batch-post-error":
		if !wants(prop, "C04") {
			return ""
		}
		return guard(func() string {
			boom := &btWrapErr{"post failed for a reason", errors.New("root cause")}
			b := NewBatchNode().
				WithPrepFunc(func(c context.Context, s *SharedStore) ([]Result, error) { return nil, nil }).
				WithPostFunc(func(c context.Context, s *SharedStore, items, results []Result) (Action, error) { return "", boom })
			_, err := Run(context.Background(), NewFlow(b), NewSharedStore())
			if err == nil || !errors.Is(err, boom) {
				return fmt.Sprintf("C04: an empty batch whose post fails: the run returned %v, which does not match the callback's error", err)
			}
			return ""
		})
	}
	return guard(func() string {
		ctx, cancel := context.WithCancel(context.Background())
		defer cancel()
		if sc.CauseCtx {
			cctx, ccancel := context.WithCancelCause(context.Background())
			defer ccancel(nil)
			ctx, cancel = cctx, func() { ccancel(errors.New("operator requested shutdown")) }
		}
		if sc.MaxProcs > 0 {
			defer runtime.GOMAXPROCS(runtime.GOMAXPROCS(sc.MaxProcs))
		}
		var inFlight int32
		allIn := make(chan struct{})
		var mu sync.Mutex
		attempts := map[int]int{}
		fbCalls := map[int]int{}
		posts := 0
		var gotItems, gotResults []Result
		errRes := errors.New("error-result")
		b := NewBatchNode().WithMaxRetries(sc.Retries).WithBatchConcurrency(sc.Concurrency).WithBatchErrorHandling(!sc.Stop).WithWait(time.Duration(sc.WaitMs) * time.Millisecond)
		type span struct{ start, end time.Time }
		spans := map[int][]span{}
		fbErr := errors.New("fallback-could-not-recover")
		type parked struct {
			item int
			ch   chan struct{}
		}
		arrivals := make(chan parked, 64)
		finished := make(chan struct{})
		if sc.Gate != "" {
			go func() {
				var waiting []parked
				for {
					select {
					case p := <-arrivals:
						waiting = append(waiting, p)
					case <-finished:
						for _, p := range waiting {
							close(p.ch)
						}
						return
					case <-time.After(25 * time.Millisecond):
						if len(waiting) == 0 {
							continue
						}
						pick := 0
						for k, p := range waiting {
							if (sc.Gate == "max-first" && p.item > waiting[pick].item) || (sc.Gate == "min-first" && p.item < waiting[pick].item) {
								pick = k
							}
						}
						close(waiting[pick].ch)
						waiting = append(waiting[:pick], waiting[pick+1:]...)
					}
				}
			}()
		}
		var prepItems []Result
		for i := 0; i < sc.Items; i++ {
			if sc.ErrItem1 == i+1 {
				prepItems = append(prepItems, NewErrorResult(&btItemErr{i}))
				continue
			}
			prepItems = append(prepItems, NewResult(i))
		}
		switch sc.Payload {
		case "results", "nil":
			b.WithPrepFunc(func(c context.Context, s *SharedStore) ([]Result, error) {
				if sc.CancelPrep {
					cancel()
				}
				if sc.Payload == "nil" {
					return nil, nil
				}
				return prepItems, nil
			})
		default:
			// other payload types come through CustomNode's prep
			b.BatchNode.CustomNode.prepFunc = func(c context.Context, s *SharedStore) (Result, error) {
				switch sc.Payload {
				case "anys":
					var a []any
					for i := 0; i < sc.Items; i++ {
						a = append(a, i)
					}
					return NewResult(a), nil
				case "ints":
					var a []int
					for i := 0; i < sc.Items; i++ {
						a = append(a, i)
					}
					return NewResult(a), nil
				case "int64s-with-zeros":
					var a []int64
					for i := 0; i < sc.Items; i++ {
						a = append(a, int64(i)) // element 0 is the zero value
					}
					return NewResult(a), nil
				}
				return NewResult(0), nil
			}
		}
		b.WithExecFunc(func(c context.Context, item Result) (Result, error) {
			i, ok := item.AsInt()
			if ie, isErr := item.Error().(*btItemErr); item.IsError() && isErr {
				i, ok = ie.idx, true
			}
			if !ok {
				return Result{}, fmt.Errorf("item is not an int: %v", item.Value())
			}
			mu.Lock()
			attempts[i]++
			k := attempts[i]
			spans[i] = append(spans[i], span{start: time.Now()})
			mu.Unlock()
			defer func() {
				mu.Lock()
				spans[i][k-1].end = time.Now()
				mu.Unlock()
			}()
			if sc.CancelIn == i && k == 1 {
				cancel()
			}
			if sc.Gate != "" {
				ch := make(chan struct{})
				arrivals <- parked{i, ch}
				<-ch
			}
			if sc.MaxProcs > 0 && i < sc.Concurrency {
				// the first `concurrency` executions wait for each other: the limit must be usable whatever GOMAXPROCS is
				if atomic.AddInt32(&inFlight, 1) == int32(sc.Concurrency) {
					close(allIn)
				}
				select {
				case <-allIn:
				case <-time.After(1500 * time.Millisecond):
					return Result{}, fmt.Errorf("only %d of %d blocking executions got in flight", atomic.LoadInt32(&inFlight), sc.Concurrency)
				}
			}
			if i < len(sc.Fail) && k <= sc.Fail[i] {
				if sc.SlowMs > 0 {
					time.Sleep(time.Duration(sc.SlowMs) * time.Millisecond)
				}
				if sc.CtxWrapErr {
					return Result{}, &btWrapErr{fmt.Sprintf("item-%d-attempt-%d", i, k), context.DeadlineExceeded}
				}
				if sc.ErrBoth {
					e := fmt.Errorf("item-%d-attempt-%d", i, k)
					return NewErrorResult(e), e
				}
				return Result{}, fmt.Errorf("item-%d-attempt-%d", i, k)
			}
			if sc.NilItem1 == i+1 {
				return NewResult(nil), nil
			}
			if sc.ErrResult == i {
				return NewErrorResult(errRes), nil
			}
			return NewResult(i * 10), nil
		})
		if sc.Fallback {
			b.BatchNode.CustomNode.execFallbackFunc = func(p any, e error) (any, error) {
				r, _ := p.(Result)
				i, _ := r.AsInt()
				if ie, isErr := r.Error().(*btItemErr); r.IsError() && isErr {
					i = ie.idx
				}
				mu.Lock()
				fbCalls[i]++
				mu.Unlock()
				if sc.FbFails {
					return nil, fbErr
				}
				return NewResult(-i), nil
			}
		}
		b.WithPostFunc(func(c context.Context, s *SharedStore, items, results []Result) (Action, error) {
			posts++
			gotItems, gotResults = items, results
			return Action(sc.PostAction), nil
		})
		runStart := time.Now()
		act, err := Run(ctx, b, NewSharedStore())
		close(finished)
		if wants(prop, "C20") && sc.WaitMs >= 300 {
			mu.Lock()
			first := spans[0]
			mu.Unlock()
			if len(first) > 0 {
				if d := first[0].start.Sub(runStart); d >= time.Duration(sc.WaitMs)*time.Millisecond/2 {
					return fmt.Sprintf("C20: the first attempt of item 0 started %v after the run began (wait %dms): there is no wait before a first attempt", d, sc.WaitMs)
				}
			}
		}
		if sc.MaxProcs > 0 && wants(prop, "C08") {
			for i, r := range gotResults {
				if r.IsError() && strings.Contains(r.Error().Error(), "blocking executions got in flight") {
					return fmt.Sprintf("C08: concurrency %d with GOMAXPROCS %d: item %d: %v", sc.Concurrency, sc.MaxProcs, i, r.Error())
				}
			}
		}
		cancelled := sc.CancelIn >= 0 || sc.CancelPrep
		if wants(prop, "C06") && sc.CancelPrep && posts != 1 {
			return fmt.Sprintf("C06: prep succeeded (the context was cancelled while it ran) but post was called %d times; Run returned (%q, %v)", posts, act, err)
		}
		if wants(prop, "C18") && err == nil && act == "" {
			return "C18: successful batch run returned the empty action"
		}
		if wants(prop, "C06", "C11") {
			if err == nil && posts != 1 {
				return fmt.Sprintf("C06: post called %d times", posts)
			}
			if err != nil && !cancelled {
				return fmt.Sprintf("C06: batch run failed: %v", err)
			}
		}
		if err != nil {
			if wants(prop, "C11") && cancelled && !errors.Is(err, ctx.Err()) {
				return fmt.Sprintf("C11: cancelled batch returned %v, which does not match ctx.Err()", err)
			}
			return ""
		}
		if wants(prop, "C06") {
			if len(gotItems) != sc.Items || len(gotResults) != sc.Items {
				return fmt.Sprintf("C06: post saw %d items and %d results, want %d", len(gotItems), len(gotResults), sc.Items)
			}
			for i, it := range gotItems {
				if sc.ErrItem1 == i+1 {
					if ie, ok := it.Error().(*btItemErr); !it.IsError() || !ok || ie.idx != i {
						return fmt.Sprintf("C06: item %d should be the error Result prep produced, is value %v err %v", i, it.Value(), it.Error())
					}
					continue
				}
				if v, _ := it.AsInt(); v != i {
					return fmt.Sprintf("C06: item %d is %v: order of prep not preserved", i, it.Value())
				}
			}
		}
		for i, r := range gotResults {
			executed := attempts[i] > 0
			if wants(prop, "C09", "C11", "C06") && !executed && !r.IsError() {
				return fmt.Sprintf("C09/C11: item %d was never executed but its slot is a success (value %v)", i, r.Value())
			}
			if !executed {
				continue
			}
			itemFails := i < len(sc.Fail) && sc.Fail[i] >= sc.Retries
			if wants(prop, "C06", "C07") && !cancelled {
				switch {
				case itemFails && sc.Fallback && sc.FbFails:
					if !r.IsError() || (r.Error() != fbErr && r.Error().Error() != fbErr.Error()) {
						return fmt.Sprintf("C07: slot %d should hold the fallback's outcome (its error %q), holds value %v err %v", i, fbErr, r.Value(), r.Error())
					}
				case itemFails && sc.Fallback:
					if v, ok := r.AsInt(); !ok || v != -i {
						return fmt.Sprintf("C07: slot %d should hold the fallback's outcome %d, holds %v (err %v)", i, -i, r.Value(), r.Error())
					}
				case itemFails:
					want := fmt.Sprintf("item-%d-attempt-%d", i, sc.Retries)
					if !r.IsError() || r.Error().Error() != want {
						return fmt.Sprintf("C07: slot %d should hold the last attempt's error %q, holds value %v err %v", i, want, r.Value(), r.Error())
					}
				case sc.NilItem1 == i+1:
					if r.IsError() || r.Value() != nil {
						return fmt.Sprintf("C06/C17: item %d was executed and succeeded with a nil value; its slot holds value %v err %v", i, r.Value(), r.Error())
					}
				case sc.ErrResult == i:
					if !r.IsError() || r.Error() != errRes {
						return fmt.Sprintf("C06: slot %d should hold exec's error result, holds %v / %v", i, r.Value(), r.Error())
					}
				default:
					if v, ok := r.AsInt(); !ok || v != i*10 {
						return fmt.Sprintf("C06: slot %d holds %v (err %v), want the outcome of item %d (%d)", i, r.Value(), r.Error(), i, i*10)
					}
				}
			}
			if wants(prop, "C02", "C07") && !cancelled {
				want := sc.Retries
				if i < len(sc.Fail) && sc.Fail[i] < sc.Retries {
					want = sc.Fail[i] + 1
				}
				if attempts[i] != want {
					return fmt.Sprintf("C02/C07: item %d was attempted %d times, want %d", i, attempts[i], want)
				}
				if sc.Fallback && itemFails != (fbCalls[i] == 1) {
					return fmt.Sprintf("C02: fallback for item %d called %d times, exhausted=%v", i, fbCalls[i], itemFails)
				}
			}
		}
		if wants(prop, "C20") && sc.WaitMs > 0 && !cancelled {
			for i, sp := range spans {
				for k := 1; k < len(sp); k++ {
					if gap := sp[k].start.Sub(sp[k-1].end); gap < time.Duration(sc.WaitMs)*time.Millisecond {
						return fmt.Sprintf("C20: item %d: only %v between the end of failed attempt %d and the start of attempt %d (wait %dms)", i, gap, k, k+1, sc.WaitMs)
					}
				}
			}
		}
		if wants(prop, "C06", "C09") && !cancelled {
			// without any failing item nothing stops a batch, whatever the error mode
			anyFail := sc.ErrItem1 > 0 || sc.ErrBoth
			for i := 0; i < sc.Items; i++ {
				if i < len(sc.Fail) && sc.Fail[i] >= sc.Retries {
					anyFail = true
				}
			}
			if !anyFail {
				for i := 0; i < sc.Items; i++ {
					if attempts[i] == 0 {
						return fmt.Sprintf("C06/C09: no item failed and the context is alive, yet item %d was never processed (stop mode: %v, concurrency %d); its slot: value %v err %v", i, sc.Stop, sc.Concurrency, gotResults[i].Value(), gotResults[i].Error())
					}
				}
			}
		}
		if wants(prop, "C07") && !sc.Stop && !cancelled {
			for i := 0; i < sc.Items; i++ {
				if attempts[i] == 0 {
					return fmt.Sprintf("C07: item %d was never processed in continue mode", i)
				}
			}
		}
		if wants(prop, "C09") && sc.Stop && sc.Concurrency <= 1 && !cancelled {
			first := -1
			for i := 0; i < sc.Items; i++ {
				if i < len(sc.Fail) && sc.Fail[i] >= sc.Retries && (!sc.Fallback || sc.FbFails) {
					first = i
					break
				}
			}
			if first >= 0 {
				for i := first + 1; i < sc.Items; i++ {
					if attempts[i] > 0 {
						return fmt.Sprintf("C09: item %d executed after item %d failed in stop mode (concurrency %d)", i, first, sc.Concurrency)
					}
				}
			}
		}
		if wants(prop, "C11") && cancelled && sc.Concurrency == 0 {
			for i := sc.CancelIn + 1; i < sc.Items; i++ {
				if attempts[i] > 0 {
					return fmt.Sprintf("C11: item %d started after the context was cancelled inside item %d (sequential)", i, sc.CancelIn)
				}
			}
			if attempts[sc.CancelIn] > 1 {
				return fmt.Sprintf("C11: item %d retried after cancellation", sc.CancelIn)
			}
		}
		return ""
	})
}

type btItemErr struct{ idx int }

func (e *btItemErr) Error() string { return fmt.Sprintf("upstream failure of item %d", e.idx) }

type btWrapErr struct {
	msg   string
	inner error
}

func (e *btWrapErr) Error() string { return e.msg }
func (e *btWrapErr) Unwrap() error { return e.inner }

// ------------------------------------------------------------------ store as a map (C14)

type vrRand struct{ s uint64 }

func (r *vrRand) next(n int) int {
	r.s = r.s*6364136223846793005 + 1442695040888963407
	return int((r.s >> 33) % uint64(n))
}

func runStoreOps(seed int) string {
	return guard(func() string {
		rnd := &vrRand{uint64(seed) * 7919}
		st := NewSharedStore()
		ref := map[string]any{}
		keys := []string{"", "a", "b", "ключ", "k4"}
		vals := []any{nil, 1, "x", []int{1}, map[string]any{"z": 1}, 2.5}
		type snap struct {
			m  map[string]any
			ks []string
			at map[string]any
		}
		var snaps []snap
		var merged []map[string]any
		for step := 0; step < 60; step++ {
			k := keys[rnd.next(len(keys))]
			switch rnd.next(11) {
			case 0, 1:
				v := vals[rnd.next(len(vals))]
				st.Set(k, v)
				ref[k] = v
			case 2:
				st.Delete(k)
				delete(ref, k)
			case 3:
				if rnd.next(4) == 0 {
					st.Clear()
					ref = map[string]any{}
				}
			case 4:
				m := map[string]any{}
				for i := 0; i < rnd.next(3); i++ {
					m[keys[rnd.next(len(keys))]] = vals[rnd.next(len(vals))]
				}
				if rnd.next(5) == 0 {
					m = nil
				}
				st.Merge(m)
				for kk, vv := range m {
					ref[kk] = vv
				}
				if m != nil {
					merged = append(merged, m)
				}
			case 5:
				v, ok := st.Get(k)
				rv, rok := ref[k]
				if ok != rok || !reflect.DeepEqual(v, rv) {
					return fmt.Sprintf("C14: Get(%q) = (%v,%v), a plain map gives (%v,%v) at step %d", k, v, ok, rv, rok, step)
				}
			case 6:
				if st.Has(k) != func() bool { _, ok := ref[k]; return ok }() {
					return fmt.Sprintf("C14: Has(%q) disagrees with a plain map at step %d", k, step)
				}
			case 7:
				if st.Len() != len(ref) {
					return fmt.Sprintf("C14: Len() = %d, a plain map has %d entries at step %d", st.Len(), len(ref), step)
				}
			case 8:
				ks := st.Keys()
				sort.Strings(ks)
				var rk []string
				for kk := range ref {
					rk = append(rk, kk)
				}
				sort.Strings(rk)
				if fmt.Sprint(ks) != fmt.Sprint(rk) {
					return fmt.Sprintf("C14: Keys() = %v, a plain map has %v at step %d", ks, rk, step)
				}
				cp := map[string]any{}
				for kk, vv := range ref {
					cp[kk] = vv
				}
				snaps = append(snaps, snap{ks: st.Keys(), at: cp})
			case 9:
				m := st.GetAll()
				if !reflect.DeepEqual(m, ref) && !(len(m) == 0 && len(ref) == 0) {
					return fmt.Sprintf("C14: GetAll() = %v, a plain map holds %v at step %d", m, ref, step)
				}
				cp := map[string]any{}
				for kk, vv := range ref {
					cp[kk] = vv
				}
				snaps = append(snaps, snap{m: m, at: cp})
			case 10:
				// mutate a snapshot: the store must not change
				if len(snaps) > 0 {
					s := snaps[rnd.next(len(snaps))]
					if s.m != nil {
						s.m["mutated"] = step
						delete(s.m, k)
					}
					for i := range s.ks {
						s.ks[i] = "mutated"
					}
					if _, ok := st.Get("mutated"); ok {
						return fmt.Sprintf("C14: mutating a GetAll snapshot changed the store at step %d", step)
					}
				}
				// the caller keeps and changes a map it merged earlier: the store holds copies
				if len(merged) > 0 {
					m := merged[rnd.next(len(merged))]
					m["caller-side"] = step
					if _, ok := st.Get("caller-side"); ok {
						return fmt.Sprintf("C14: changing a map after Merge(map) returned changed the store at step %d", step)
					}
					delete(m, "caller-side")
				}
			}
		}
		// later store updates never change earlier snapshots
		for _, s := range snaps {
			if s.m != nil {
				for kk, vv := range s.at {
					if _, mutated := s.m["mutated"]; mutated {
						continue
					}
					if got, ok := s.m[kk]; !ok || !reflect.DeepEqual(got, vv) {
						return fmt.Sprintf("C14: a GetAll snapshot changed after later store updates (key %q)", kk)
					}
				}
			}
		}
		return ""
	})
}

// ------------------------------------------------------------------ store under concurrency (C13), stress only

// storeLockProbe: a deterministic probe of the lock discipline (the harness lives in the package and can hold
// the store's own lock): no mutation may complete while a reader section is open, and no operation at all
// while a writer section is open.
func storeLockProbe() string {
	{
		st := NewSharedStore()
		st.Set("strs", []string{"a", "b"})
		st.Set("nums", []int{1, 2})
		st.GetSlice("strs")
		st.GetSliceOr("nums", nil)
		st.GetInt("nums")
		st.GetString("strs")
		if v, _ := st.Get("strs"); reflect.TypeOf(v) != reflect.TypeOf([]string{}) {
			return fmt.Sprintf("C13: Set(k, []string) followed only by getters: Get(k) now returns a %T; no sequential order of these operations on a plain map explains it", v)
		}
		if v, _ := st.Get("nums"); reflect.TypeOf(v) != reflect.TypeOf([]int{}) {
			return fmt.Sprintf("C13: Set(k, []int) followed only by getters: Get(k) now returns a %T", v)
		}
		st.Set("nil", nil)
		if _, ok := st.Get("nil"); !st.Has("nil") || !ok {
			return fmt.Sprintf("C13: after Set(k, nil): Has(k)=%v, Get(k) ok=%v; on an ordinary map the key is present", st.Has("nil"), ok)
		}
		empty := NewSharedStore()
		snap := empty.GetAll()
		empty.Set("later", 1)
		if len(snap) != 0 {
			return fmt.Sprintf("C13: a snapshot taken from an empty store shows a later Set (%v): GetAll handed out the store's own map", snap)
		}
		snap2 := NewSharedStore()
		m := snap2.GetAll()
		if m != nil {
			m["ghost"] = true
		}
		if snap2.Has("ghost") {
			return "C13: editing the snapshot of an empty store changed the store"
		}
	}
	type op struct {
		name string
		run  func(st *SharedStore)
		mut  bool
	}
	ops := []op{
		{"Set of an existing key", func(st *SharedStore) { st.Set("a", 2) }, true},
		{"Set of a new key", func(st *SharedStore) { st.Set("n", 2) }, true},
		{"Delete", func(st *SharedStore) { st.Delete("a") }, true},
		{"Merge", func(st *SharedStore) { st.Merge(map[string]any{"a": 3, "m": 4}) }, true},
		{"Merge into an empty store", nil, true},
		{"Clear", func(st *SharedStore) { st.Clear() }, true},
		{"Get", func(st *SharedStore) { st.Get("a") }, false},
		{"Has", func(st *SharedStore) { st.Has("a") }, false},
		{"Len", func(st *SharedStore) { st.Len() }, false},
		{"Keys", func(st *SharedStore) { st.Keys() }, false},
		{"GetAll", func(st *SharedStore) { st.GetAll() }, false},
		{"GetInt", func(st *SharedStore) { st.GetInt("a") }, false},
		{"GetString", func(st *SharedStore) { st.GetString("a") }, false},
	}
	for _, o := range ops {
		for _, writerHeld := range []bool{false, true} {
			if !o.mut && !writerHeld {
				continue // readers may share a reader section
			}
			st := NewSharedStore()
			run := o.run
			if run == nil {
				run = func(st *SharedStore) { st.Merge(map[string]any{"a": 3, "m": 4}) }
			} else {
				st.Set("a", 1)
			}
			if writerHeld {
				st.mu.Lock()
			} else {
				st.mu.RLock()
			}
			done := make(chan struct{})
			go func() { run(st); close(done) }()
			completed := false
			select {
			case <-done:
				completed = true
			case <-time.After(40 * time.Millisecond):
			}
			if writerHeld {
				st.mu.Unlock()
			} else {
				st.mu.RUnlock()
			}
			select {
			case <-done:
			case <-time.After(3 * time.Second):
				return fmt.Sprintf("C13: %s did not complete after the lock was released", o.name)
			}
			if completed {
				held := "a reader"
				if writerHeld {
					held = "a writer"
				}
				return fmt.Sprintf("C13: %s completed while %s was inside its critical section on the same store", o.name, held)
			}
		}
	}
	return ""
}

func runStoreConcurrent() string {
	if m := guard(storeLockProbe); m != "" {
		return m
	}
	return guard(func() string {
		batch := map[string]any{}
		for i := 0; i < 64; i++ {
			batch[fmt.Sprintf("m%d", i)] = i
		}
		for round := 0; round < 20000; round++ {
			st := NewSharedStore()
			var wg sync.WaitGroup
			wg.Add(2)
			go func() { defer wg.Done(); st.Merge(batch) }()
			go func() { defer wg.Done(); st.Set("x", round) }()
			wg.Wait()
			// both operations completed: any sequential order of them leaves all 65 keys
			if n := st.Len(); n != 65 || !st.Has("x") {
				return fmt.Sprintf("C13: after Merge(64 keys) and Set(\"x\") both returned the store has %d keys, Has(x)=%v: no sequential order of the two explains it (round %d)", n, st.Has("x"), round)
			}
			if round%50 == 0 {
				// a reader never observes part of a Merge or a half-cleared store
				stop := make(chan struct{})
				bad := make(chan string, 1)
				go func() {
					for {
						select {
						case <-stop:
							return
						default:
						}
						if n := len(st.GetAll()); n != 0 && n != 65 && n != 64 && n != 1 {
							select {
							case bad <- fmt.Sprintf("C13: a reader observed %d keys while Clear and Merge of 64 keys were running", n):
							default:
							}
							return
						}
					}
				}()
				for k := 0; k < 20; k++ {
					st.Clear()
					st.Merge(batch)
				}
				close(stop)
				select {
				case m := <-bad:
					return m
				default:
				}
			}
		}
		return ""
	})
}

// ------------------------------------------------------------------ typed accessors (C15)

type vrStructWithSlice struct{ S []int }

func valueCatalogue() []any {
	var np *int
	var nm map[string]any
	var ns []int
	x := 5
	var nas []any
	return []any{nas, nil, "s", "", true, false, int(-3), int8(-8), int16(16), int32(-32), int64(1 << 40), uint(7), uint8(200), uint16(60000), uint32(1 << 31), uint64(math.MaxUint64),
		float32(1.5), float64(-2.75), math.NaN(), math.Inf(1), np, &x, nm, map[string]any{"a": 1}, map[string]int{"a": 1}, ns, []int{1, 2}, []any{1, "a"}, []string{"x"}, []float64{1.5},
		[]map[string]any{{"k": 1}}, [][]int{{1}}, [2]int{1, 2}, func() {}, make(chan int), vrStructWithSlice{[]int{1}}, struct{ A int }{1}, complex(1, 2), errors.New("e"), []error{nil},
		NewResult(42), NewResult([]int{1, 2, 3}), NewResult("inner"), NewErrorResult(errors.New("inner-error")), Result{}}
}

func runValue(i int) string {
	v := valueCatalogue()[i]
	return guard(func() string {
		r := NewResult(v)
		st := NewSharedStore()
		st.Set("k", v)
		rv := reflect.ValueOf(v)
		// ---- string
		ws, wsOK := v.(string)
		if s, ok := r.AsString(); ok != wsOK || s != ws {
			return fmt.Sprintf("C15: AsString(%T) = (%q,%v)", v, s, ok)
		}
		if r.AsStringOr("d") != map[bool]string{true: ws, false: "d"}[wsOK] || st.GetStringOr("k", "d") != r.AsStringOr("d") || st.GetString("k") != ws {
			return fmt.Sprintf("C15: string variants disagree for %T", v)
		}
		// ---- bool
		wb, wbOK := v.(bool)
		if b, ok := r.AsBool(); ok != wbOK || b != wb || r.AsBoolOr(true) != (wb || !wbOK) || st.GetBoolOr("k", true) != r.AsBoolOr(true) || st.GetBool("k") != wb {
			return fmt.Sprintf("C15: bool variants disagree for %T", v)
		}
		// ---- int / float
		isNum := false
		var wi int
		var wf float64
		if v != nil {
			switch rv.Kind() {
			case reflect.Int, reflect.Int8, reflect.Int16, reflect.Int32, reflect.Int64:
				isNum, wi, wf = true, int(rv.Int()), float64(rv.Int())
			case reflect.Uint, reflect.Uint8, reflect.Uint16, reflect.Uint32, reflect.Uint64:
				isNum, wi, wf = true, int(rv.Uint()), float64(rv.Uint())
			case reflect.Float32, reflect.Float64:
				isNum, wf = true, rv.Float()
				switch f := v.(type) {
				case float32:
					wi = int(f)
				case float64:
					wi = int(f)
				}
			}
		}
		if n, ok := r.AsInt(); ok != isNum || (isNum && n != wi) {
			return fmt.Sprintf("C15: AsInt(%T %v) = (%d,%v), want (%d,%v)", v, v, n, ok, wi, isNum)
		}
		if r.AsIntOr(99) != map[bool]int{true: wi, false: 99}[isNum] || st.GetIntOr("k", 99) != r.AsIntOr(99) || st.GetInt("k") != map[bool]int{true: wi, false: 0}[isNum] {
			return fmt.Sprintf("C15: int variants disagree for %T", v)
		}
		if f, ok := r.AsFloat64(); ok != isNum || (isNum && f != wf && !(math.IsNaN(f) && math.IsNaN(wf))) {
			return fmt.Sprintf("C15: AsFloat64(%T %v) = (%v,%v), want (%v,%v)", v, v, f, ok, wf, isNum)
		}
		if g := st.GetFloat64Or("k", 9.5); isNum != (g != 9.5) && !(isNum && wf == 9.5) && !(isNum && math.IsNaN(wf) && math.IsNaN(g)) {
			return fmt.Sprintf("C15: GetFloat64Or disagrees with AsFloat64 for %T", v)
		}
		// ---- map
		wm, wmOK := v.(map[string]any)
		if m, ok := r.AsMap(); ok != wmOK || (ok && reflect.ValueOf(m).Pointer() != reflect.ValueOf(wm).Pointer()) {
			return fmt.Sprintf("C15: AsMap(%T) ok=%v", v, ok)
		}
		if (st.GetMapOr("k", map[string]any{"d": 1})["d"] == 1) == wmOK && !(wmOK && wm["d"] == 1) {
			return fmt.Sprintf("C15: GetMapOr disagrees with AsMap for %T", v)
		}
		// ---- slice: succeeds exactly for slices, same elements as ToSlice
		isSlice := v != nil && rv.Kind() == reflect.Slice
		s, ok := r.AsSlice()
		if ok != isSlice {
			return fmt.Sprintf("C15: AsSlice(%T %v) ok=%v, but the value is a slice=%v", v, v, ok, isSlice)
		}
		def := []any{"default"}
		g := st.GetSliceOr("k", def)
		if isSlice != !(len(g) == 1 && g[0] == "default") {
			return fmt.Sprintf("C15: GetSliceOr(%T) disagrees with AsSlice", v)
		}
		ts := ToSlice(v)
		if v == nil && (ts == nil || len(ts) != 0) {
			return "C15: ToSlice(nil) is not an empty slice"
		}
		if v != nil && !isSlice && len(ts) != 1 {
			return fmt.Sprintf("C15: ToSlice(%T) has %d elements, want 1", v, len(ts))
		}
		if isSlice {
			if len(s) != rv.Len() || len(ts) != rv.Len() || len(g) != rv.Len() {
				return fmt.Sprintf("C15: slice accessors of %T return %d/%d/%d elements, want %d", v, len(s), len(ts), len(g), rv.Len())
			}
			for j := 0; j < rv.Len(); j++ {
				if !reflect.DeepEqual(s[j], rv.Index(j).Interface()) || !reflect.DeepEqual(ts[j], rv.Index(j).Interface()) {
					return fmt.Sprintf("C15: element %d of the slice accessors of %T differs from the slice's element", j, v)
				}
			}
		}
		_ = r.AsSliceOr(nil)
		// Must variants panic exactly when the plain accessor fails
		must := func(name string, okPlain bool, f func()) string {
			panicked := func() (p bool) {
				defer func() {
					if recover() != nil {
						p = true
					}
				}()
				f()
				return false
			}()
			if panicked == okPlain {
				return fmt.Sprintf("C15: %s panicked=%v although the plain accessor ok=%v for %T", name, panicked, okPlain, v)
			}
			return ""
		}
		for _, m := range []string{
			must("MustString", wsOK, func() { r.MustString() }), must("MustInt", isNum, func() { r.MustInt() }), must("MustFloat64", isNum, func() { r.MustFloat64() }),
			must("MustBool", wbOK, func() { r.MustBool() }), must("MustSlice", isSlice, func() { r.MustSlice() }), must("MustMap", wmOK, func() { r.MustMap() })} {
			if m != "" {
				return m
			}
		}
		return ""
	})
}

// ------------------------------------------------------------------ Bind (C16)

type vrUser struct {
	ID   int    `json:"id"`
	Name string `json:"name"`
}

type bindCase struct {
	desc string
	val  any
	dest func() any
}

func bindCases() []bindCase {
	return []bindCase{
		{"same type struct", vrUser{1, "a"}, func() any { return &vrUser{} }},
		{"map to struct", map[string]any{"id": 2, "name": "b"}, func() any { return &vrUser{} }},
		{"struct to map", vrUser{3, "c"}, func() any { return &map[string]any{} }},
		{"int to string (incompatible)", 5, func() any { var s string; return &s }},
		{"string to int (incompatible)", "x", func() any { var i int; return &i }},
		{"slice to slice", []int{1, 2}, func() any { return &[]int{} }},
		{"same type int", 7, func() any { var i int; return &i }},
		{"to interface", 1.5, func() any { var a any; return &a }},
		{"nil pointer dest", 1, func() any { var p *int; return p }},
		{"non-pointer dest", 1, func() any { return 3 }},
		{"nil dest", 1, func() any { return nil }},
		{"unmarshalable chan", make(chan int), func() any { return &vrUser{} }},
		{"unmarshalable func", func() {}, func() any { var a any; return &a }},
		{"pointer value same type", &vrUser{9, "p"}, func() any { var p *vrUser; return &p }},
		{"nil value", nil, func() any { return &vrUser{} }},
		{"partial decode into a pre-populated struct", map[string]any{"id": "not-a-number", "name": "partial"}, func() any { return &vrUser{ID: 42, Name: "pre"} }},
		{"partial decode into a slice", []any{1, "x", 3}, func() any { return &[]int{7, 8, 9, 10} }},
		{"value that is itself a Result, same type", NewResult("payload"), func() any { return &Result{} }},
		{"value that is itself a Result, other type", NewResult(7), func() any { var i int; return &i }},
		{"zero Result as a value", Result{}, func() any { return &vrUser{ID: 1} }},
		{"interface destination already holding a value of the value's type", 7, func() any { var a any = 1; return &a }},
		{"interface destination holding a struct of the value's type", vrUser{4, "d"}, func() any { var a any = vrUser{}; return &a }},
		{"typed nil pointer value, same pointer type", (*vrUser)(nil), func() any { p := &vrUser{ID: 9}; return &p }},
		{"typed nil pointer value, struct destination", (*vrUser)(nil), func() any { return &vrUser{ID: 9, Name: "kept"} }},
	}
}

func runBind(i int) string {
	c := bindCases()[i]
	return guard(func() string {
		ref := func(dest any) error {
			// the property's oracle: identity for matching types, else JSON round trip
			rv := reflect.ValueOf(dest)
			if c.val == nil || rv.Kind() != reflect.Ptr || rv.IsNil() {
				return errors.New("error expected")
			}
			if reflect.TypeOf(c.val) == rv.Type().Elem() {
				rv.Elem().Set(reflect.ValueOf(c.val))
				return nil
			}
			b, err := json.Marshal(c.val)
			if err != nil {
				return err
			}
			return json.Unmarshal(b, dest)
		}
		before, _ := json.Marshal(c.val)
		d1, d2, d3 := c.dest(), c.dest(), c.dest()
		wantErr := ref(d1)
		gotErr := NewResult(c.val).Bind(d2)
		st := NewSharedStore()
		st.Set("k", c.val)
		stErr := st.Bind("k", d3)
		if (wantErr == nil) != (gotErr == nil) {
			return fmt.Sprintf("C16: %s: Result.Bind error %v, the JSON round trip gives %v", c.desc, gotErr, wantErr)
		}
		if c.val != nil && (gotErr == nil) != (stErr == nil) {
			return fmt.Sprintf("C16: %s: store Bind (%v) and Result.Bind (%v) disagree", c.desc, stErr, gotErr)
		}
		if gotErr == nil && !reflect.DeepEqual(d1, d2) {
			return fmt.Sprintf("C16: %s: Result.Bind produced %#v, the JSON round trip %#v", c.desc, d2, d1)
		}
		if rv := reflect.ValueOf(d1); gotErr != nil && wantErr != nil && c.val != nil && rv.Kind() == reflect.Ptr && !rv.IsNil() && !reflect.DeepEqual(d1, d2) {
			return fmt.Sprintf("C16: %s: after the failed binding the destination holds %#v, the failed JSON round trip leaves %#v", c.desc, reflect.ValueOf(d2).Elem().Interface(), rv.Elem().Interface())
		}
		if gotErr == nil && stErr == nil && !reflect.DeepEqual(d2, d3) {
			return fmt.Sprintf("C16: %s: store Bind produced %#v, Result.Bind %#v", c.desc, d3, d2)
		}
		if after, _ := json.Marshal(c.val); string(after) != string(before) {
			return fmt.Sprintf("C16: %s: binding modified the stored value", c.desc)
		}
		if err := st.Bind("missing", c.dest()); err == nil {
			return "C16: binding a missing key did not report an error"
		}
		return ""
	})
}

// ------------------------------------------------------------------ configuration (C19)

// configPresetReuse: one options slice used for several nodes (function options before base options).
func configPresetReuse(label string) string {
	return guard(func() string {
		ran := 0
		preset := []any{
			WithExecFuncAny(func(ctx context.Context, p any) (any, error) { ran++; return "exec-ran", nil }),
			WithPostFuncAny(func(ctx context.Context, s *SharedStore, p, e any) (Action, error) { return "done", nil }),
			WithMaxRetries(3),
			WithWait(2 * time.Millisecond),
		}
		calls := ""
		nb := NewNode().
			WithExecFuncAny(func(ctx context.Context, p any) (any, error) { calls += "any "; return "from-any", nil }).
			WithMaxRetries(2).
			WithExecFunc(func(ctx context.Context, p Result) (Result, error) { calls += "result "; return NewResult("from-result"), nil })
		if _, err := Run(context.Background(), nb, NewSharedStore()); err != nil || calls != "result " {
			return fmt.Sprintf("%s: NewNode().WithExecFuncAny(a).WithMaxRetries(2).WithExecFunc(r): the last setting must win; exec calls %q, error %v", label, calls, err)
		}
		for _, size := range []int{-3, -1, 0} {
			done := make(chan struct{})
			p := NewWorkerPool(size)
			p.Submit(func() { close(done) })
			select {
			case <-done:
			case <-time.After(2 * time.Second):
				return fmt.Sprintf("%s: NewWorkerPool(%d) must behave like a pool of one worker; a submitted task did not run", label, size)
			}
			p.Wait()
			p.Close()
		}
		for k := 1; k <= 3; k++ {
			n := NewNode(preset...)
			before := ran
			act, err := Run(context.Background(), n, NewSharedStore())
			if err != nil || act != "done" || ran != before+1 || n.GetMaxRetries() != 3 || n.GetWait() != 2*time.Millisecond {
				return fmt.Sprintf("%s: node #%d built from a reused options slice (exec func, post func, WithMaxRetries(3), WithWait(2ms)): Run = (%q, %v), exec ran %d time(s), retries %d, wait %v", label, k, act, err, ran-before, n.GetMaxRetries(), n.GetWait())
			}
		}
		return ""
	})
}

func runConfig(seed int) string {
	label := os.Getenv("VERIF_REPLAY_PROPERTY")
	if label == "" {
		label = "C19"
	}
	if seed == 1 {
		if m := configPresetReuse(label); m != "" {
			return m
		}
	}
	return guard(func() string {
		rnd := &vrRand{uint64(seed) * 104729}
		type setting struct {
			kind int
			val  int
		}
		var seq []setting
		for i := 0; i < 1+rnd.next(6); i++ {
			seq = append(seq, setting{rnd.next(4), rnd.next(5)})
		}
		split := rnd.next(len(seq) + 1)
		// reference: last setting of each parameter wins; options are applied before builder calls
		want := [4]int{1, 0, 0, 1} // retries, wait(ms), concurrency, continue(1)/stop(0)
		for _, s := range seq {
			v := s.val
			if s.kind == 3 {
				v = s.val % 2
			}
			want[s.kind] = v
		}
		var opts []any
		for _, s := range seq[:split] {
			switch s.kind {
			case 0:
				opts = append(opts, WithMaxRetries(s.val))
			case 1:
				opts = append(opts, WithWait(time.Duration(s.val)*time.Millisecond))
			case 2:
				opts = append(opts, WithBatchConcurrency(s.val))
			case 3:
				opts = append(opts, WithBatchErrorHandling(s.val%2 == 1))
			}
		}
		check := func(what string, bn *BaseNode) string {
			got := [4]int{bn.GetMaxRetries(), int(bn.GetWait() / time.Millisecond), bn.GetBatchConcurrency(), 0}
			if bn.GetBatchErrorHandling() == "continue" {
				got[3] = 1
			}
			if got != want {
				return fmt.Sprintf("%s: %s configured by %v (kind 0 retries, 1 wait ms, 2 concurrency, 3 continue; first %d as options, rest as builder calls) reads %v, want %v", label, what, seq, split, got, want)
			}
			return ""
		}
		nb := NewNode(opts...)
		bb := NewBatchNode(opts...)
		for _, s := range seq[split:] {
			switch s.kind {
			case 0:
				nb.WithMaxRetries(s.val)
				bb.WithMaxRetries(s.val)
			case 1:
				nb.WithWait(time.Duration(s.val) * time.Millisecond)
				bb.WithWait(time.Duration(s.val) * time.Millisecond)
			case 2:
				nb.WithBatchConcurrency(s.val)
				bb.WithBatchConcurrency(s.val)
			case 3:
				nb.WithBatchErrorHandling(s.val%2 == 1)
				bb.WithBatchErrorHandling(s.val%2 == 1)
			}
		}
		if m := check("NewNode", nb.BaseNode); m != "" {
			return m
		}
		if m := check("NewBatchNode", bb.BaseNode); m != "" {
			return m
		}
		d := NewBaseNode()
		if d.GetMaxRetries() != 1 || d.GetWait() != 0 || d.GetBatchConcurrency() != 0 || d.GetBatchErrorHandling() != "continue" {
			return label + ": documented defaults do not hold for NewBaseNode()"
		}
		return ""
	})
}

// ------------------------------------------------------------------ worker pool (C08, C12)

type plScenario struct {
	Workers int  `json:"workers"`
	Tasks   int  `json:"tasks"`
	Gated   bool `json:"submit_next_after_previous_started"`
	Special string `json:"special,omitempty"` // two-waiters | dependent-tasks
}

func poolScenarios() []plScenario {
	var out []plScenario
	for _, w := range []int{-1, 0, 1, 2, 4} {
		for _, n := range []int{0, 1, 5, 40} {
			out = append(out, plScenario{w, n, false, ""})
		}
	}
	for _, w := range []int{2, 3, 8} {
		out = append(out, plScenario{w, w, true, ""})
	}
	out = append(out, plScenario{1, 300, false, "many-tasks"}, plScenario{2, 600, false, "many-tasks"}, plScenario{2, 2, false, "two-waiters"}, plScenario{2, 6, false, "dependent-tasks"}, plScenario{3, 9, false, "dependent-tasks"})
	return out
}

// poolTwoWaiters: two clients each submit a blocking task and then call Wait concurrently; neither Wait may return
// while a previously submitted task is still running.
func poolTwoWaiters() string {
	return guard(func() string {
		p := NewWorkerPool(2)
		gate := make(chan struct{})
		running := make(chan struct{}, 2)
		var finished int32
		for i := 0; i < 2; i++ {
			p.Submit(func() { running <- struct{}{}; <-gate; atomic.AddInt32(&finished, 1) })
		}
		for i := 0; i < 2; i++ {
			select {
			case <-running:
			case <-time.After(3 * time.Second):
				return "C08: two blocking tasks did not both start on a pool of two workers"
			}
		}
		early := make(chan int32, 2)
		for i := 0; i < 2; i++ {
			go func() { p.Wait(); early <- atomic.LoadInt32(&finished) }()
		}
		select {
		case n := <-early:
			close(gate)
			return fmt.Sprintf("C12: with two concurrent waiters, a Wait returned while %d of the 2 previously submitted tasks were still running", 2-n)
		case <-time.After(300 * time.Millisecond):
		}
		close(gate)
		for i := 0; i < 2; i++ {
			select {
			case n := <-early:
				if n != 2 {
					return fmt.Sprintf("C12: Wait returned after only %d of 2 tasks had finished", n)
				}
			case <-time.After(3 * time.Second):
				return "C12: Wait did not return after all tasks finished"
			}
		}
		p.Close()
		return ""
	})
}

// poolDependentTasks: all c workers are busy; c mutually dependent tasks (each waits until all c are in flight)
// and c fillers are queued; one worker is freed, then the rest. The c dependent tasks must get in flight together.
func poolDependentTasks(c int) string {
	return guard(func() string {
		p := NewWorkerPool(c)
		gates := make([]chan struct{}, c)
		started := make(chan int, c)
		for i := range gates {
			gates[i] = make(chan struct{})
			i := i
			p.Submit(func() { started <- i; <-gates[i] })
		}
		for i := 0; i < c; i++ {
			select {
			case <-started:
			case <-time.After(3 * time.Second):
				return fmt.Sprintf("C08: only %d of %d blocking tasks started with %d workers", i, c, c)
			}
		}
		var arrived int32
		release := make(chan struct{})
		allIn := make(chan struct{})
		for i := 0; i < c; i++ {
			p.Submit(func() {
				if atomic.AddInt32(&arrived, 1) == int32(c) {
					close(allIn)
				}
				<-release
			})
		}
		for i := 0; i < c; i++ {
			p.Submit(func() {})
		}
		close(gates[0])
		time.Sleep(30 * time.Millisecond)
		for i := 1; i < c; i++ {
			close(gates[i])
		}
		select {
		case <-allIn:
		case <-time.After(1500 * time.Millisecond):
			n := atomic.LoadInt32(&arrived)
			close(release)
			return fmt.Sprintf("C08: with %d workers only %d of %d mutually dependent tasks were ever in flight together (the rest stayed out of reach of the idle workers)", c, n, c)
		}
		close(release)
		p.Wait()
		p.Close()
		return ""
	})
}

// poolManyTasks: far more tasks than queue slots on a small pool, over several Submit/Wait rounds; every task exactly once.
func poolManyTasks(workers, tasks int) string {
	return guard(func() string {
		p := NewWorkerPool(workers)
		counts := make([]int32, tasks)
		done := make(chan struct{})
		go func() {
			defer close(done)
			for round := 0; round < 3; round++ {
				for i := round; i < tasks; i += 3 {
					i := i
					p.Submit(func() { atomic.AddInt32(&counts[i], 1) })
				}
				p.Wait()
			}
		}()
		select {
		case <-done:
		case <-time.After(5 * time.Second):
			lost := -1
			for i := range counts {
				if atomic.LoadInt32(&counts[i]) == 0 {
					lost = i
					break
				}
			}
			return fmt.Sprintf("C12: %d tasks on %d worker(s) in three Submit/Wait rounds: Wait did not return (first task never run: %d)", tasks, workers, lost)
		}
		for i := range counts {
			if n := atomic.LoadInt32(&counts[i]); n != 1 {
				return fmt.Sprintf("C12: task %d of %d ran %d times on a pool of %d worker(s)", i, tasks, n, workers)
			}
		}
		p.Close()
		return ""
	})
}

func runPool(sc plScenario) string {
	switch sc.Special {
	case "two-waiters":
		return poolTwoWaiters()
	case "dependent-tasks":
		return poolDependentTasks(sc.Workers)
	case "many-tasks":
		return poolManyTasks(sc.Workers, sc.Tasks)
	}
	return guard(func() string {
		p := NewWorkerPool(sc.Workers)
		c := sc.Workers
		if c <= 0 {
			c = 1
		}
		counts := make([]int32, sc.Tasks)
		var inFlight, maxInFlight int32
		gate := make(chan struct{})
		reached := make(chan struct{}, sc.Tasks)
		done := make(chan struct{})
		started := make(chan struct{}, sc.Tasks)
		go func() {
			for i := 0; i < sc.Tasks; i++ {
				i := i
				if sc.Gated && i > 0 {
					select {
					case <-started:
					case <-time.After(3 * time.Second):
					}
				}
				p.Submit(func() {
					started <- struct{}{}
					n := atomic.AddInt32(&inFlight, 1)
					for {
						m := atomic.LoadInt32(&maxInFlight)
						if n <= m || atomic.CompareAndSwapInt32(&maxInFlight, m, n) {
							break
						}
					}
					reached <- struct{}{}
					<-gate
					atomic.AddInt32(&counts[i], 1)
					atomic.AddInt32(&inFlight, -1)
				})
			}
			close(done)
		}()
		// the limit is usable: min(c, tasks) blocked tasks run simultaneously
		expect := c
		if sc.Tasks < c {
			expect = sc.Tasks
		}
		for i := 0; i < expect; i++ {
			select {
			case <-reached:
			case <-time.After(3 * time.Second):
				return fmt.Sprintf("C08: only %d of %d blocking tasks started with %d workers", i, expect, c)
			}
		}
		time.Sleep(20 * time.Millisecond)
		if m := atomic.LoadInt32(&maxInFlight); int(m) > c {
			return fmt.Sprintf("C08: %d tasks in flight with %d workers", m, c)
		}
		close(gate)
		<-done
		p.Wait()
		for i := range counts {
			if n := atomic.LoadInt32(&counts[i]); n != 1 {
				return fmt.Sprintf("C12: task %d ran %d times (Wait returned)", i, n)
			}
		}
		if m := atomic.LoadInt32(&maxInFlight); int(m) > c {
			return fmt.Sprintf("C08: %d tasks in flight with %d workers", m, c)
		}
		p.Close()
		return ""
	})
}

var _ = strings.Contains
