# Must-fail corpus: each case is a change to mark3labs/flyt that breaks one property while still compiling.
# (id, property, file, old, new, regex that must match a reported failing obligation)
# "benign" cases must verify for every listed property.
MUTANTS = [
 # ---- C01 lifecycle
 ("c01-post-after-failed-exec", "C01", "flyt.go",
  'return "", fmt.Errorf("run: exec failed after %d retries: %w", maxRetries, execErr)',
  '_ = fmt.Errorf("run: exec failed after %d retries: %w", maxRetries, execErr)', r"Run/call:Node\.Post#1/monitor"),
 ("c01-prep-twice", "C01", "flyt.go",
  '\tprepResult, err := node.Prep(ctx, shared)\n\tif err != nil {\n\t\treturn "", fmt.Errorf("run: prep failed: %w", err)',
  '\tprepResult, err := node.Prep(ctx, shared)\n\tif err == nil {\n\t\tprepResult, err = node.Prep(ctx, shared)\n\t}\n\tif err != nil {\n\t\treturn "", fmt.Errorf("run: prep failed: %w", err)', r"Run/call:Node\.Prep#2/monitor"),
 ("c01-exec-gets-nil", "C01", "flyt.go", 'execResult, execErr = node.Exec(ctx, prepResult)', 'execResult, execErr = node.Exec(ctx, nil)', r"Run/call:Node\.Exec#1/monitor"),
 ("c01-default-action-with-error", "C01", "flyt.go", 'return "", fmt.Errorf("run: post failed: %w", err)', 'return DefaultAction, fmt.Errorf("run: post failed: %w", err)', r"Run/ensures#\d+\[C01"),
 ("c01-post-wrong-store", "C01", "flyt.go", 'action, err := node.Post(ctx, shared, prepResult, execResult)', 'action, err := node.Post(ctx, NewSharedStore(), prepResult, execResult)', r"Run/call:Node\.Post#1/monitor"),
 # ---- C02 retries
 ("c02-budget-off-by-one", "C02", "flyt.go", 'for attempt := 0; attempt < maxRetries; attempt++ {\n\t\t// Check context before retry', 'for attempt := 0; attempt <= maxRetries; attempt++ {\n\t\t// Check context before retry', r"Run/call:Node\.Exec#1/monitor"),
 ("c02-budget-minus-one", "C02", "flyt.go", 'for attempt := 0; attempt < maxRetries; attempt++ {\n\t\t// Check context before retry', 'for attempt := 0; attempt < maxRetries-1 || attempt == 0; attempt++ {\n\t\t// Check context before retry', r"Run/(call:FallbackNode|ensures)"),
 ("c02-fallback-first-error", "C02", "flyt.go",
  '\t\texecResult, execErr = node.Exec(ctx, prepResult)\n\t\tif execErr == nil {\n\t\t\tbreak\n\t\t}\n\t}\n\n\t// Handle exec failure\n\tif execErr != nil {\n\t\tif fallback, ok := node.(FallbackNode); ok {\n\t\t\texecResult, execErr = fallback.ExecFallback(prepResult, execErr)',
  '\t\texecResult, execErr = node.Exec(ctx, prepResult)\n\t\tif execErr == nil {\n\t\t\tbreak\n\t\t}\n\t\tif firstErr == nil {\n\t\t\tfirstErr = execErr\n\t\t}\n\t}\n\n\t// Handle exec failure\n\tif execErr != nil {\n\t\tif fallback, ok := node.(FallbackNode); ok {\n\t\t\texecResult, execErr = fallback.ExecFallback(prepResult, firstErr)', r"Run/call:FallbackNode\.ExecFallback#1/monitor", [("flyt.go", '\tvar execErr error\n\n\tfor attempt := 0; attempt < maxRetries; attempt++ {\n\t\t// Check context before retry', '\tvar execErr error\n\tvar firstErr error\n\n\tfor attempt := 0; attempt < maxRetries; attempt++ {\n\t\t// Check context before retry')]),
 ("c02-no-break-on-success", "C02", "flyt.go", '\t\texecResult, execErr = node.Exec(ctx, prepResult)\n\t\tif execErr == nil {\n\t\t\tbreak\n\t\t}', '\t\texecResult, execErr = node.Exec(ctx, prepResult)', r"Run/(call:Node\.Exec#1/monitor|loop1/inv-preserved)"),
 ("c02-batch-budget", "C02", "batch.go", 'for attempt := 0; attempt < maxRetries; attempt++ {\n\t\tif ctx.Err() != nil {', 'for attempt := 0; attempt <= maxRetries; attempt++ {\n\t\tif ctx.Err() != nil {', r"runExecWithRetries/call:Node\.Exec#1/monitor"),
 # ---- C03 routing
 ("c03-first-connect-wins", "C03", "flyt.go", '\tf.transitions[from][action] = to\n', '\tif _, dup := f.transitions[from][action]; !dup {\n\t\tf.transitions[from][action] = to\n\t}\n', r"\(\*Flow\)\.Connect/ensures"),
 ("c03-stale-action", "C03", "flyt.go", 'if next, ok := transitions[action]; ok {', 'if next, ok := transitions[lastAction]; ok {', r"\(\*Flow\)\.Exec/(call:Run|ensures)", [("flyt.go", '\t\tlastAction = action\n\n\t\t// Find next node based on action', '\t\t// Find next node based on action'), ("flyt.go", '\t\t\t\tcurrent = next\n', '\t\t\t\tcurrent = next\n\t\t\t\tlastAction = action\n')]),
 ("c03-nil-target-continues", "C03", "flyt.go", '\t\t\t\tcurrent = next\n\t\t\t} else {', '\t\t\t\tif next != nil {\n\t\t\t\t\tcurrent = next\n\t\t\t\t}\n\t\t\t} else {', r"\(\*Flow\)\.Exec/call:Run#1/monitor"),
 # ---- C04 errors
 ("c04-prep-v", "C04", "flyt.go", 'fmt.Errorf("run: prep failed: %w", err)', 'fmt.Errorf("run: prep failed: %v", err)', r"Run/ensures#\d+\[C04\]"),
 ("c04-exec-v", "C04", "flyt.go", 'fmt.Errorf("run: exec failed after %d retries: %w", maxRetries, execErr)', 'fmt.Errorf("run: exec failed after %d retries: %v", maxRetries, execErr)', r"Run/ensures#\d+\[C04\]"),
 ("c04-post-swallowed", "C04", "flyt.go", '\taction, err := node.Post(ctx, shared, prepResult, execResult)\n\tif err != nil {\n\t\treturn "", fmt.Errorf("run: post failed: %w", err)\n\t}', '\taction, _ := node.Post(ctx, shared, prepResult, execResult)', r"Run/ensures#\d+\[C04\]"),
 ("c04-flow-continues-after-failure", "C04", "flyt.go", '\t\taction, err := Run(ctx, current, shared)\n\t\tif err != nil {\n\t\t\treturn nil, err\n\t\t}', '\t\taction, err := Run(ctx, current, shared)\n\t\tif err != nil && action == "stop" {\n\t\t\treturn nil, err\n\t\t}', r"\(\*Flow\)\.Exec/"),
 ("c04-flow-rewraps", "C04", "flyt.go", '\t\taction, err := Run(ctx, current, shared)\n\t\tif err != nil {\n\t\t\treturn nil, err\n\t\t}', '\t\taction, err := Run(ctx, current, shared)\n\t\tif err != nil {\n\t\t\treturn nil, fmt.Errorf("flow: node failed: %v", err)\n\t\t}', r"\(\*Flow\)\.Exec/ensures#\d+\[C04\]"),
 ("c04-batch-post-v", "C04", "batch.go", '\taction, err := node.Post(ctx, shared, items, results)\n\tif err != nil {\n\t\treturn "", fmt.Errorf("run: post failed: %w", err)', '\taction, err := node.Post(ctx, shared, items, results)\n\tif err != nil {\n\t\treturn "", fmt.Errorf("run: post failed: %v", err)', r"runBatch/ensures#\d+\[C04"),
 # ---- C05 cancellation
 ("c05-drop-first-check", "C05", "flyt.go", '\tif err := ctx.Err(); err != nil {\n\t\treturn "", fmt.Errorf("run: context cancelled: %w", err)\n\t}\n', '', r"Run/(call:Node\.Prep#1/monitor|ensures#\d+\[C05\])"),
 ("c05-drop-loop-check", "C05", "flyt.go", '\t\tif err := ctx.Err(); err != nil {\n\t\t\treturn "", fmt.Errorf("run: context cancelled during retry: %w", err)\n\t\t}\n', '', r"Run/call:Node\.Exec#1/monitor"),
 ("c05-flow-drop-check", "C05", "flyt.go", '\t\tif err := ctx.Err(); err != nil {\n\t\t\treturn nil, fmt.Errorf("flow: exec cancelled: %w", err)\n\t\t}\n', '', r"\(\*Flow\)\.Exec/"),
 ("c05-cancel-v", "C05", "flyt.go", 'fmt.Errorf("run: context cancelled after prep: %w", err)', 'fmt.Errorf("run: context cancelled after prep: %v", err)', r"Run/ensures#\d+\[C05\]"),
 # ---- C06 batch positional
 ("c06-slot-shift", "C06", "batch.go", '\t\t\t\tresults[i] = NewResult(execResult)\n\t\t\t}\n\t\t}\n\t}\n}', '\t\t\t\tresults[(i+1)%len(results)] = NewResult(execResult)\n\t\t\t}\n\t\t}\n\t}\n}', r"runBatchSequential/"),
 ("c06-shared-index", "C06", "batch.go", '\t\tidx := i\n', '\t\tidx := 0 * i\n', r"runBatchConcurrent/call:\(\*WorkerPool\)\.Submit#1/monitor"),
 ("c06-post-before-wait", "C06", "batch.go", '\tpool.Wait()\n}', '\t_ = pool\n}', r"runBatchConcurrent/"),
 ("c06-items-reversed", "C06", "batch.go", '\t\t\titems[i] = NewResult(item)\n\t\t}\n\tdefault:', '\t\t\titems[len(v)-1-i] = NewResult(item)\n\t\t}\n\tdefault:', r"runBatch/"),
 # ---- C07 every item once
 ("c07-skip-after-failure", "C07", "batch.go", '\t\t\tresults[i] = NewErrorResult(err)\n\t\t\tif errorHandling == "stop" {\n\t\t\t\tmarkSkipped(results[i+1:])\n\t\t\t\tbreak\n\t\t\t}', '\t\t\tresults[i] = NewErrorResult(err)\n\t\t\tif errorHandling == "stop" || i > 2 {\n\t\t\t\tmarkSkipped(results[i+1:])\n\t\t\t\tbreak\n\t\t\t}', r"runBatchSequential/ensures#\d+\[C07\]"),
 ("c07-task-runs-twice", "C07", "batch.go", '\t\t\texecResult, err := runExecWithRetries(ctx, node, itm)\n\n\t\t\tmu.Lock()', '\t\t\texecResult, err := runExecWithRetries(ctx, node, itm)\n\t\t\tif err != nil {\n\t\t\t\texecResult, err = runExecWithRetries(ctx, node, itm)\n\t\t\t}\n\n\t\t\tmu.Lock()', r"runBatchConcurrent\$1/call:runExecWithRetries#2/monitor"),
 # ---- C08 concurrency bound
 ("c08-extra-worker", "C08", "flyt.go", 'for i := 0; i < workers; i++ {\n\t\tgo p.worker()', 'for i := 0; i <= workers; i++ {\n\t\tgo p.worker()', r"NewWorkerPool/"),
 ("c08-go-task", "C08", "flyt.go", '\t\t\ttask()\n\t\tcase <-p.done:', '\t\t\tgo task()\n\t\tcase <-p.done:', r"\(\*WorkerPool\)\.worker/"),
 ("c08-pool-plus-one", "C08", "batch.go", 'pool := NewWorkerPool(concurrency)', 'pool := NewWorkerPool(concurrency + 1)', r"runBatchConcurrent/call:NewWorkerPool#1/monitor"),
 ("c08-concurrent-when-zero", "C08", "batch.go", '\tif concurrency > 0 {\n\t\trunBatchConcurrent', '\tif concurrency >= 0 {\n\t\trunBatchConcurrent', r"runBatch/call:runBatchConcurrent#1/monitor"),
 # ---- C09 stop on error
 ("c09-no-fill", "C09", "batch.go", '\t\t\tresults[i] = NewErrorResult(err)\n\t\t\tif errorHandling == "stop" {\n\t\t\t\tmarkSkipped(results[i+1:])\n\t\t\t\tbreak', '\t\t\tresults[i] = NewErrorResult(err)\n\t\t\tif errorHandling == "stop" {\n\t\t\t\tbreak', r"runBatchSequential/ensures#\d+\[C09,C11\]"),
 ("c09-flag-without-lock", "C09", "batch.go", '\t\t\tmu.Lock()\n\t\t\tif shouldStop && errorHandling == "stop" {\n\t\t\t\tresults[idx] = NewErrorResult(fmt.Errorf("batch stopped due to error"))\n\t\t\t\tmu.Unlock()\n\t\t\t\treturn\n\t\t\t}\n\t\t\tmu.Unlock()', '\t\t\tif shouldStop && errorHandling == "stop" {\n\t\t\t\tresults[idx] = NewErrorResult(fmt.Errorf("batch stopped due to error"))\n\t\t\t\treturn\n\t\t\t}', r"runBatchConcurrent\$1/lock/read-of-guarded-cell"),
 ("c09-check-after-exec", "C09", "batch.go", '\t\t\tif shouldStop && errorHandling == "stop" {\n\t\t\t\tresults[idx] = NewErrorResult(fmt.Errorf("batch stopped due to error"))', '\t\t\tif shouldStop && errorHandling == "halt" {\n\t\t\t\tresults[idx] = NewErrorResult(fmt.Errorf("batch stopped due to error"))', r"runBatchConcurrent\$1/call:runExecWithRetries#1/monitor"),
 # ---- C10 flow as node
 ("c10-post-always-default", "C10", "flyt.go", '\tif action, ok := execResult.(Action); ok {\n\t\treturn action, nil\n\t}\n\treturn DefaultAction, nil', '\treturn DefaultAction, nil', r"\(\*Flow\)\.Post/ensures"),
 ("c10-prep-new-store", "C10", "flyt.go", '\t// Pass the shared store to Exec\n\treturn shared, nil', '\t// Pass the shared store to Exec\n\treturn NewSharedStore(), nil', r"\(\*Flow\)\.Prep/ensures"),
 ("c10-first-action", "C10", "flyt.go", '\t\tlastAction = action\n', '\t\tif lastAction == "" {\n\t\t\tlastAction = action\n\t\t}\n', r"\(\*Flow\)\.Exec/"),
 # ---- C11 batch cancellation
 ("c11-drop-item-check", "C11", "batch.go", '\t\tif ctx.Err() != nil {\n\t\t\tresults[i] = NewErrorResult(fmt.Errorf("context cancelled"))\n\t\t\tif errorHandling == "stop" {\n\t\t\t\tmarkSkipped(results[i+1:])\n\t\t\t\tbreak\n\t\t\t}\n\t\t\tcontinue\n\t\t}\n', '', r"runBatchSequential/call:runExecWithRetries#1/monitor"),
 ("c11-skipped-as-success", "C11", "batch.go", '\t\t\tresults[i] = NewErrorResult(fmt.Errorf("context cancelled"))\n\t\t\tif errorHandling == "stop" {', '\t\t\tresults[i] = NewResult(nil)\n\t\t\tif errorHandling == "stop" {', r"runBatchSequential/"),
 ("c11-wait-not-cancellable", "C11", "batch.go", '\t\t\tselect {\n\t\t\tcase <-time.After(wait):\n\t\t\tcase <-ctx.Done():\n\t\t\t\treturn nil, fmt.Errorf("context cancelled during wait: %w", ctx.Err())\n\t\t\t}', '\t\t\t<-time.After(wait)', r"runExecWithRetries"),
 # ---- C12 pool
 ("c12-add-after-send", "C12", "flyt.go", '\tp.wg.Add(1)\n\tp.tasks <- func() {\n\t\tdefer p.wg.Done()\n\t\ttask()\n\t}', '\tp.tasks <- func() {\n\t\tdefer p.wg.Done()\n\t\ttask()\n\t}\n\tp.wg.Add(1)', r"\(\*WorkerPool\)\.Submit/"),
 ("c12-done-before-task", "C12", "flyt.go", '\t\tdefer p.wg.Done()\n\t\ttask()', '\t\tp.wg.Done()\n\t\ttask()', r"\(\*WorkerPool\)\.Submit\$1/"),
 ("c12-wait-noop", "C12", "flyt.go", 'func (p *WorkerPool) Wait() {\n\tp.wg.Wait()', 'func (p *WorkerPool) Wait() {\n\t_ = &p.wg', r"\(\*WorkerPool\)\.Wait/ensures"),
 ("c12-worker-runs-task-twice", "C12", "flyt.go", '\t\t\tif !ok {\n\t\t\t\treturn\n\t\t\t}\n\t\t\ttask()', '\t\t\tif !ok {\n\t\t\t\treturn\n\t\t\t}\n\t\t\ttask()\n\t\t\ttask()', r"\(\*WorkerPool\)\.worker/"),
 ("c12-worker-returns-after-one", "C12", "flyt.go", '\t\t\ttask()\n\t\tcase <-p.done:', '\t\t\ttask()\n\t\t\treturn\n\t\tcase <-p.done:', r"\(\*WorkerPool\)\.worker/ensures"),
 ("c12-close-nothing", "C12", "flyt.go", '\tclose(p.done)\n\tclose(p.tasks)', '\tclose(p.done)', r"\(\*WorkerPool\)\.Close/ensures"),
 ("c12-nonblocking-send", "C12", "flyt.go", '\tp.tasks <- func() {\n\t\tdefer p.wg.Done()\n\t\ttask()\n\t}\n}', '\tselect {\n\tcase p.tasks <- func() {\n\t\tdefer p.wg.Done()\n\t\ttask()\n\t}:\n\tdefault:\n\t}\n}', r"\(\*WorkerPool\)\.Submit"),
 # ---- C13 lock discipline
 ("c13-len-nolock", "C13", "flyt.go", 'func (s *SharedStore) Len() int {\n\ts.mu.RLock()\n\tdefer s.mu.RUnlock()\n', 'func (s *SharedStore) Len() int {\n', r"\(\*SharedStore\)\.Len/lock/"),
 ("c13-set-rlock", "C13", "flyt.go", 'func (s *SharedStore) Set(key string, value any) {\n\ts.mu.Lock()\n\tdefer s.mu.Unlock()', 'func (s *SharedStore) Set(key string, value any) {\n\ts.mu.RLock()\n\tdefer s.mu.RUnlock()', r"\(\*SharedStore\)\.Set/lock/"),
 ("c13-merge-lock-per-key", "C13", "flyt.go", '\ts.mu.Lock()\n\tdefer s.mu.Unlock()\n\tfor k, v := range data {\n\t\ts.data[k] = v\n\t}', '\tfor k, v := range data {\n\t\ts.mu.Lock()\n\t\ts.data[k] = v\n\t\ts.mu.Unlock()\n\t}', r"\(\*SharedStore\)\.Merge/"),
 ("c13-clear-two-sections", "C13", "flyt.go", 'func (s *SharedStore) Clear() {\n\ts.mu.Lock()\n\tdefer s.mu.Unlock()\n\ts.data = make(map[string]any)', 'func (s *SharedStore) Clear() {\n\ts.mu.Lock()\n\tfresh := make(map[string]any)\n\ts.mu.Unlock()\n\ts.mu.Lock()\n\tdefer s.mu.Unlock()\n\ts.data = fresh', r"\(\*SharedStore\)\.Clear/ensures#\d+\[C13\]"),
 # ---- C14 store = map
 ("c14-getall-alias", "C14", "flyt.go", '\tcopy := make(map[string]any, len(s.data))\n\tfor k, v := range s.data {\n\t\tcopy[k] = v\n\t}\n\treturn copy', '\treturn s.data', r"\(\*SharedStore\)\.GetAll/"),
 ("c14-merge-keeps-existing", "C14", "flyt.go", '\tfor k, v := range data {\n\t\ts.data[k] = v\n\t}', '\tfor k, v := range data {\n\t\tif _, ok := s.data[k]; !ok {\n\t\t\ts.data[k] = v\n\t\t}\n\t}', r"\(\*SharedStore\)\.Merge/"),
 ("c14-has-nonnil", "C14", "flyt.go", '\t_, ok := s.data[key]\n\treturn ok', '\tv, ok := s.data[key]\n\treturn ok && v != nil', r"\(\*SharedStore\)\.Has/ensures"),
 ("c14-delete-noop-when-nil", "C14", "flyt.go", '\tdelete(s.data, key)', '\tif s.data[key] != nil {\n\t\tdelete(s.data, key)\n\t}', r"\(\*SharedStore\)\.Delete/"),
 # ---- C15 accessors
 ("c15-drop-uint16", "C15", "result.go", '\tcase uint16:\n\t\treturn int(v), true\n', '', r"Result\.AsInt/ensures"),
 ("c15-intor-zero", "C15", "result.go", '\ti, ok := r.AsInt()\n\tif !ok {\n\t\treturn defaultVal\n\t}\n\treturn i\n}', '\ti, _ := r.AsInt()\n\treturn i\n}', r"Result\.AsIntOr/ensures"),
 ("c15-toslice-nil", "C15", "flyt.go", '\tif v == nil {\n\t\treturn []any{}\n\t}\n\n\tswitch val := v.(type) {', '\tif v == nil {\n\t\treturn []any{nil}\n\t}\n\n\tswitch val := v.(type) {', r"ToSlice/ensures"),
 ("c15-old-heuristic", "C15", "result.go", '\tif reflect.ValueOf(r.value).Kind() != reflect.Slice {\n\t\treturn nil, false\n\t}\n\treturn ToSlice(r.value), true', '\tresult := ToSlice(r.value)\n\tif len(result) == 1 && result[0] == r.value {\n\t\treturn nil, false\n\t}\n\treturn result, true', r"Result\.AsSlice/(nopanic/iface-eq|ensures)"),
 ("c15-store-float-drops-int8", "C15", "flyt.go", '\tcase int8:\n\t\treturn float64(v)\n', '', r"\(\*SharedStore\)\.GetFloat64Or/ensures"),
 # ---- C16 bind
 ("c16-drop-isnil", "C16", "result.go", 'if rv.Kind() != reflect.Ptr || rv.IsNil() {\n\t\treturn fmt.Errorf("destination must be a non-nil pointer")\n\t}\n\n\t// If Result value', 'if rv.Kind() != reflect.Ptr {\n\t\treturn fmt.Errorf("destination must be a non-nil pointer")\n\t}\n\n\t// If Result value', r"Result\.Bind/"),
 ("c16-ignore-marshal-error", "C16", "result.go", '\tjsonBytes, err := json.Marshal(r.value)\n\tif err != nil {\n\t\treturn fmt.Errorf("failed to marshal Result: %w", err)\n\t}', '\tjsonBytes, _ := json.Marshal(r.value)', r"Result\.Bind/ensures"),
 ("c16-store-bind-missing-key-ok", "C16", "flyt.go", '\tif !ok {\n\t\treturn fmt.Errorf("key %q not found in shared store", key)\n\t}\n', '\tif !ok {\n\t\treturn nil\n\t}\n', r"\(\*SharedStore\)\.Bind/ensures"),
 # ---- C17 function style
 ("c17-double-wrap", "C17", "flyt.go", '\t\texec, ok := execResult.(Result)\n\t\tif !ok {\n\t\t\texec = NewResult(execResult)\n\t\t}\n\t\treturn n.postFunc(ctx, shared, NewResult(prepResult), exec)', '\t\treturn n.postFunc(ctx, shared, NewResult(prepResult), NewResult(execResult))', r"\(\*CustomNode\)\.Post/call:dynamic:field CustomNode\.postFunc#1/monitor"),
 ("c17-execany-drops-value", "C17", "builder.go", '\t\tval, err := fn(ctx, prepResult.Value())\n\t\tif err != nil {\n\t\t\treturn Result{}, err\n\t\t}\n\t\treturn NewResult(val), nil\n\t}\n\treturn b\n}\n\n// WithPostFuncAny', '\t\tval, err := fn(ctx, prepResult)\n\t\tif err != nil {\n\t\t\treturn Result{}, err\n\t\t}\n\t\treturn NewResult(val), nil\n\t}\n\treturn b\n}\n\n// WithPostFuncAny', r"\(\*NodeBuilder\)\.WithExecFuncAny\$1/call"),
 ("c17-prep-double-wrap", "C17", "flyt.go", '\t\treturn result.Value(), nil\n\t}\n\treturn n.BaseNode.Prep(ctx, shared)', '\t\treturn result, nil\n\t}\n\treturn n.BaseNode.Prep(ctx, shared)', r"\(\*CustomNode\)\.Prep/ensures"),
 # ---- C18 non-empty action
 ("c18-no-normalise", "C18", "flyt.go", '\tif action == "" {\n\t\taction = DefaultAction\n\t}\n\n\treturn action, nil\n}\n\n// Flow represents', '\treturn action, nil\n}\n\n// Flow represents', r"Run/ensures#\d+\[C01,C18\]"),
 ("c18-empty-batch", "C18", "batch.go", '\t\tif action == "" {\n\t\t\taction = DefaultAction\n\t\t}\n\t\treturn action, nil\n\t}\n', '\t\treturn action, nil\n\t}\n', r"runBatch/ensures#\d+\[C18\]"),
 ("c18-normalise-to-done", "C18", "batch.go", '\tif action == "" {\n\t\taction = DefaultAction\n\t}\n\n\treturn action, nil\n}', '\tif action == "" {\n\t\taction = "done"\n\t}\n\n\treturn action, nil\n}', r"runBatch/ensures#\d+\[C18\]"),
 # ---- C19 configuration
 ("c19-builder-wait-resets-retries", "C19", "builder.go", '\tWithWait(wait)(b.BaseNode)\n\treturn b', '\tWithWait(wait)(b.BaseNode)\n\tb.maxRetries = 1\n\treturn b', r"\(\*NodeBuilder\)\.WithWait/"),
 ("c19-default-retries-zero", "C19", "flyt.go", '\t\tmaxRetries: 1,\n\t\twait:       0,', '\t\tmaxRetries: 0,\n\t\twait:       0,', r"NewBaseNode/"),
 ("c19-default-stop", "C19", "flyt.go", '\t\treturn "continue" // default', '\t\treturn "stop" // default', r"\(\*BaseNode\)\.GetBatchErrorHandling/ensures"),
 ("c19-option-applied-twice", "C19", "flyt.go", '\tfor _, opt := range opts {\n\t\topt(n)\n\t}', '\tfor _, opt := range opts {\n\t\topt(n)\n\t\topt(n)\n\t}', r"NewBaseNode/"),
 ("c19-pool-zero-workers", "C19", "flyt.go", '\tif workers <= 0 {\n\t\tworkers = 1\n\t}', '\tif workers < 0 {\n\t\tworkers = 1\n\t}', r"NewWorkerPool/"),
 ("c19-batch-builder-conc-off", "C19", "batch.go", '\tb.batchConcurrency = n\n\treturn b', '\tb.batchConcurrency = n - 1\n\treturn b', r"\(\*BatchNodeBuilder\)\.WithBatchConcurrency/ensures"),
 # ---- C20 retry wait
 ("c20-no-wait", "C20", "flyt.go", '\t\tif attempt > 0 && wait > 0 {\n\t\t\tselect {\n\t\t\tcase <-time.After(wait):\n\t\t\t\t// Continue with retry\n\t\t\tcase <-ctx.Done():\n\t\t\t\treturn "", fmt.Errorf("run: context cancelled during wait: %w", ctx.Err())\n\t\t\t}\n\t\t}\n', '\t\t_ = wait\n', r"Run/call:Node\.Exec#1/monitor"),
 ("c20-timer-before-attempt", "C20", "flyt.go", '\t\tif attempt > 0 && wait > 0 {\n\t\t\tselect {\n\t\t\tcase <-time.After(wait):', '\t\tif attempt > 1 && wait > 0 {\n\t\t\tselect {\n\t\t\tcase <-time.After(wait):', r"Run/call:Node\.Exec#1/monitor"),
 ("c20-sleep", "C20", "flyt.go", '\t\t\tselect {\n\t\t\tcase <-time.After(wait):\n\t\t\t\t// Continue with retry\n\t\t\tcase <-ctx.Done():\n\t\t\t\treturn "", fmt.Errorf("run: context cancelled during wait: %w", ctx.Err())\n\t\t\t}', '\t\t\ttime.Sleep(wait)', r"Run"),
 ("c20-batch-half-wait", "C20", "batch.go", '\t\t\tcase <-time.After(wait):\n\t\t\tcase <-ctx.Done():', '\t\t\tcase <-time.After(wait / 2):\n\t\t\tcase <-ctx.Done():', r"runExecWithRetries/call:Node\.Exec#1/monitor"),
]

# Benign refactors: must verify for every listed property (false-alarm guard).
BENIGN = [
 ("b-retry-loop-tried-counter", ["C01", "C02", "C05", "C20"], "flyt.go",
  'for attempt := 0; attempt < maxRetries; attempt++ {\n\t\t// Check context before retry\n\t\tif err := ctx.Err(); err != nil {\n\t\t\treturn "", fmt.Errorf("run: context cancelled during retry: %w", err)\n\t\t}\n\n\t\tif attempt > 0 && wait > 0 {',
  'for tried := 0; tried != maxRetries && tried < maxRetries; tried += 1 {\n\t\t// Check context before retry\n\t\tif err := ctx.Err(); err != nil {\n\t\t\treturn "", fmt.Errorf("run: context cancelled during retry: %w", err)\n\t\t}\n\n\t\tif tried >= 1 && wait > 0 {'),
 ("b-retry-loop-countdown", ["C01", "C02", "C05", "C20"], "flyt.go",
  'for attempt := 0; attempt < maxRetries; attempt++ {\n\t\t// Check context before retry\n\t\tif err := ctx.Err(); err != nil {\n\t\t\treturn "", fmt.Errorf("run: context cancelled during retry: %w", err)\n\t\t}\n\n\t\tif attempt > 0 && wait > 0 {',
  'for left := maxRetries; left > 0; left-- {\n\t\t// Check context before retry\n\t\tif err := ctx.Err(); err != nil {\n\t\t\treturn "", fmt.Errorf("run: context cancelled during retry: %w", err)\n\t\t}\n\n\t\tif left < maxRetries && wait > 0 {'),
 ("b-rename-locals", ["C01", "C02", "C04"], "flyt.go", None, None, [("flyt.go", "execErr", "lastFailure"), ("flyt.go", "execResult", "outcome")]),
 ("b-flow-loop-index-style", ["C03", "C04", "C05", "C10"], "flyt.go",
  '\tcurrent := f.start\n\tvar lastAction Action\n\n\tfor current != nil {', '\tvar lastAction Action\n\n\tfor current := f.start; current != nil; {', [("flyt.go", "\t\t\t\tcurrent = next\n", "\t\t\t\tcurrent = next\n")]),
 ("b-sequential-index-loop", ["C06", "C07", "C09", "C11"], "batch.go",
  '\tfor i, item := range items {\n\t\tif ctx.Err() != nil {\n\t\t\tresults[i] = NewErrorResult(fmt.Errorf("context cancelled"))',
  '\tfor i := 0; i < len(items); i++ {\n\t\titem := items[i]\n\t\tif ctx.Err() != nil {\n\t\t\tresults[i] = NewErrorResult(fmt.Errorf("context cancelled"))'),
 ("b-rename-captured-variables", ["C06", "C09", "C12", "C17"], "batch.go", None, None, [("batch.go", "idx", "slot"), ("batch.go", "itm", "entry"), ("batch.go", "shouldStop", "halt"), ("builder.go", "fn", "userFn")]),
 ("b-error-message-text", ["C04", "C05"], "flyt.go", 'fmt.Errorf("run: prep failed: %w", err)', 'fmt.Errorf("run: preparation phase failed: %w", err)'),
 ("b-store-get-explicit-unlock", ["C13", "C14", "C15"], "flyt.go",
  '\ts.mu.RLock()\n\tdefer s.mu.RUnlock()\n\tval, ok := s.data[key]\n\treturn val, ok', '\ts.mu.RLock()\n\tval, ok := s.data[key]\n\ts.mu.RUnlock()\n\treturn val, ok'),
 ("b-extract-helper", ["C01", "C18"], "flyt.go",
  '\tif action == "" {\n\t\taction = DefaultAction\n\t}\n\n\treturn action, nil\n}\n\n// Flow represents', '\treturn normalizeAction(action), nil\n}\n\nfunc normalizeAction(a Action) Action {\n\tif a == "" {\n\t\treturn DefaultAction\n\t}\n\treturn a\n}\n\n// Flow represents'),
]
