#!/bin/sh
# Build the verifier from files on disk only (offline).
set -e
cd "$(dirname "$0")/engine"
export GOFLAGS=-mod=mod GOPROXY=off GOSUMDB=off GOTOOLCHAIN=local CGO_ENABLED=0
mkdir -p ../bin
go build -o ../bin/flytvc .
