#!/usr/bin/env python3
"""benign_eval.py <Bxx> [patchN ...] [--props C01,C02]: evaluate a sub-agent's behaviour-preserving refactorings.
 1. copies /tmp/wt/<Bxx>/_benign to /verif/benign/<bxx>/ (if present)
 2. for every patch: scratch copy of /repo, apply, build, run the suite, then run every property's quick check
    (no replay) against it; a non-zero exit is a false alarm candidate to be triaged by hand.
Writes /verif/benign/<bxx>/result.json."""
import sys, os, shutil, subprocess, tempfile, json, re, glob, concurrent.futures
ENV = dict(os.environ, GOFLAGS='-mod=mod', GOPROXY='off', GOSUMDB='off', GOTOOLCHAIN='local')
args = sys.argv[1:]
props = [f'C{i:02d}' for i in range(1, 21)]
if '--props' in args:
    i = args.index('--props'); props = args[i+1].split(','); del args[i:i+2]
args = [a for a in args if a != '--all-props']
bid = args[0]; only = args[1:]
src = f'/tmp/wt/{bid}/_benign'
dst = f'/verif/benign/{bid.lower()}'
if os.path.isdir(src):
    os.makedirs(dst, exist_ok=True)
    for f in os.listdir(src):
        shutil.copy(os.path.join(src, f), dst)
def scratch():
    d = tempfile.mkdtemp(prefix='flytben.')
    for f in os.listdir('/repo'):
        if f.endswith('.go') or f in ('go.mod', 'go.sum'):
            shutil.copy('/repo/' + f, d)
    return d
def run(cmd, cwd):
    r = subprocess.run(cmd, cwd=cwd, capture_output=True, text=True, env=ENV, shell=isinstance(cmd, str))
    return r.returncode, (r.stdout + r.stderr)
def check(d, p):
    out = tempfile.mkdtemp(prefix='flytout.')
    shutil.copy('/verif/known_findings.txt', out)
    c, o = run(['/verif/bin/flytvc', 'check', '-property', p, '-repo', d, '-out', out, '-no-replay', '-v'], '/verif')
    shutil.rmtree(out, ignore_errors=True)
    failed = re.findall(r'^FAILED (\S.*?) \[', o, re.M)
    return p, c, failed
# property -> functions verified for it (contract names); used to select the properties a patch can affect
ALLP = '--all-props' in sys.argv
funcs_of = {}
if not ALLP:
    for p_ in props:
        c, o = run(['/verif/bin/flytvc', 'list', '-property', p_], '/verif')
        funcs_of[p_] = set(l.strip() for l in o.splitlines() if l.strip() and not l.startswith('WARNING'))
def changed_functions(d, patch):
    """names (flytvc style) of the functions whose lines the patch touches, read off the patched files"""
    names = set(); unknown = False
    cur = None
    for line in open(patch):
        m = re.match(r'\+\+\+ b/(\S+)', line)
        if m: cur = m.group(1); continue
        m = re.match(r'@@ -\d+(?:,\d+)? \+(\d+)(?:,(\d+))? @@', line)
        if m and cur and cur.endswith('.go'):
            start = int(m.group(1)); n = int(m.group(2) or 1)
            src = open(os.path.join(d, cur)).read().split('\n')
            lo, hi = start + 3, start + max(n - 4, 0)
            for ln in range(lo, hi + 1):
                j = min(ln - 1, len(src) - 1)
                # the enclosing top-level func: search upwards for a line starting with 'func ', stop at a closing brace in column 0
                while j >= 0 and not src[j].startswith('func '):
                    if src[j].startswith('}') and j < ln - 1:
                        j = -1; break
                    j -= 1
                if j < 0:
                    continue
                fm = re.match(r'func (?:\((\w+) (\*?)(\w+)\) )?(\w+)', src[j])
                if not fm: unknown = True; continue
                _, star, recv, fn = fm.groups()
                if recv:
                    names.add(('(*%s).%s' % (recv, fn)) if star else ('%s.%s' % (recv, fn)))
                else:
                    names.add(fn)
    return names, unknown
def props_for(d, patch):
    if ALLP: return props
    names, unknown = changed_functions(d, patch)
    sel = []
    matched = set()
    for p_ in props:
        hit = False
        for f in funcs_of[p_]:
            base = f.split('$')[0].split('+')[0]
            if base in names:
                hit = True; matched.add(base)
        if hit: sel.append(p_)
    if unknown or (names - matched):
        return props  # a changed function that no contract names: it is inlined somewhere, check everything
    return sel or ['C01', 'C06', 'C14']
result = {}
for patch in sorted(glob.glob(dst + '/patch*.diff')):
    name = os.path.basename(patch)[:-5]
    if only and name not in only: continue
    d = scratch()
    try:
        c, o = run(['git', 'apply', '--unsafe-paths', '--directory', d, patch], '/')
        if c != 0:
            c, o = run(f'patch -p1 < {patch}', d)
        if c != 0:
            result[name] = {'status': 'patch-does-not-apply', 'detail': o[:300]}; print(name, 'DOES NOT APPLY'); continue
        c, o = run('go build ./... && go test -vet=off -count=1 -timeout 120s .', d)
        entry = {'suite_passes': c == 0, 'alarms': {}}
        with concurrent.futures.ThreadPoolExecutor(max_workers=5) as ex:
            sel = props_for(d, patch)
            entry['properties_checked'] = sel
            for p, code, failed in ex.map(lambda p: check(d, p), sel):
                if code != 0:
                    entry['alarms'][p] = failed[:8]
        result[name] = entry
        print(name, 'suite', 'ok' if entry['suite_passes'] else 'FAIL', 'props', len(sel), 'alarms:', json.dumps(entry['alarms']) if entry['alarms'] else 'none', flush=True)
    finally:
        shutil.rmtree(d, ignore_errors=True)
rp = os.path.join(dst, 'result.json')
old = {}
if os.path.exists(rp) and only:
    old = json.load(open(rp))
old.update(result)
json.dump(old, open(rp, 'w'), indent=1)
