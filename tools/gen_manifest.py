#!/usr/bin/env python3
"""Generates /verif/MANIFEST.json from the table below (kept in one place so the manifest stays valid)."""
import json, subprocess, os
props = {
 "C01": ("Node lifecycle proved as a ghost typestate monitor woven at every callback site of Run (and of CustomNode/NodeBuilder delegators): prep once with the run's store, exec only with prep's value, post at most once and iff exec/fallback produced a result, exactly one of action/error. All retry budgets, outcome scripts and payloads are symbolic; the retry loop is cut by an inductive invariant.",
         "A1 (callbacks do not reconfigure a running node), A2 (budget >= 1 and retry settings are pure views), T8, T9; nodes are non-typed-nil (okNode). Batch nodes are dispatched to runBatch whose own contract is verified under C06/C18.", "2.4, 6/C01"),
 "C02": ("Retry budget and fallback proved for Run and runExecWithRetries: every Exec site requires nExec < budget and a failed previous attempt; loop exit with error implies nExec == budget; fallback exactly once iff exhausted, with the prep value and the last attempt's error; decreases clause gives termination of the retry loop. Budget N is a symbolic integer >= 1 (not bounded by 8). 'Has a fallback' is specified as 'has an ExecFallback method' (hasMethod), independently of the interface the code asserts; batch callers pass the run's context, node and item unchanged.",
         "A2, T5/T7/T8 for the wait; non-retryable node <=> budget 1 by definition of budget().", "6/C02"),
 "C03": ("Flow routing proved against an abstract view nextNode(f,n,a) of the two-level transition map: Connect updates exactly one pair of the whole view (frame included) and keeps the representation invariant; Flow.Exec's monitor requires every Run call to target the ghost cursor, which follows nextNode; default-deny forbids touching any other node; Flow.Exec assigns nothing in the flow object.",
         "A5 (node values hashable, part of okNode), partial correctness (flows may cycle forever). Callbacks may re-wire the running flow through Connect: the tables are havocked by every callback and only the representation invariant flowRep (which Connect is proved to maintain) is assumed afterwards, so 'the node most recently connected' is the table at the moment the node finishes.", "6/C03"),
 "C04": ("Error transparency proved as Is(err, callbackErr) postconditions at every early return of Run / runBatch (fmt.Errorf %w modelled by T9), identity of the child's error in Flow.Exec, and fail-stop by monitor guards (!failed before every child Run, phase guards in Run).",
         "T9 (fmt.Errorf/%w, errors.Is reflexive and transitive over wrapping); nesting depth by modularity (Flow.Exec verified against Run's contract).", "6/C04, 4/L4"),
 "C05": ("Cancellation proved with a monotone ghost boolean that may flip inside every callback and during a blocking select: pre-cancelled => no callback and Is(err, ctx.Err()); !cancelled at every Exec site and every child Run site; any observed cancellation => non-nil error matching ctx.Err().",
         "A3 (cancellation is observed only through ctx.Err()/Done()), T5, T8.", "6/C05"),
 "C06": ("Positional batch results: normalisation of the prep value, one runExecWithRetries call per index with items[i], slot i == slotOf(outcome i) as quantified loop invariants (sequential); for the pooled path each task is proved to write only its own slot with its own item's outcome, and submission is proved to bind task i to (i, items[i]) once, Wait before return, and what is returned is exactly the slots as they were when Wait returned (settled snapshot). Post exactly once with items and results.",
         "Sequential path: proved. Concurrent path: function-local contracts proved; 'for every schedule' rests on lemma L3 (L3step/L3final are SMT-checked implications over the task's frame and postcondition clauses) and on L2barrier + T2; that the lemma hypotheses faithfully abstract the clauses they cite, and the axioms T2-T4, are argued.", "6/C06, 4/L3"),
 "C07": ("Every item exactly once: ghost per-index call counters; continue mode without cancellation => every counter is 1 at Post (sequential: loop invariant; pooled: one Submit per index and the task calls runExecWithRetries exactly once unless stopped/cancelled); runExecWithRetries has no state besides locals; slot error is the last attempt's error or the fallback's outcome (identity, not merely Is).",
         "As C06 for the pooled path (L3).", "6/C07"),
 "C08": ("Concurrency bound: NewWorkerPool spawns exactly max(workers,1) goroutines of worker(p) (loop invariant spawned == k); worker runs received tasks synchronously, one at a time, never spawns; Submit never runs a task; runBatch takes the pooled path iff concurrency > 0 and passes exactly that number; one pool task per item, bound to its index; no item is executed while the batch mutex is held; sequential path runs items in index order.",
         "Safety half proved function-locally; lifted to 'never more than c in flight on every schedule' by lemma L2 (counter system with SMT-checked steps L2submit/L2take/L2finish/L2bound; the correspondence of the steps to the cited clauses and T3-T5 are argued). The liveness half (c blocking executions do run simultaneously, no deadlock) is NOT decided by this technique: it follows from spawned == c plus runtime fairness, stated as an argument.", "6/C08, 8"),
 "C09": ("Stop-on-error: sequential: no runExecWithRetries call after a failing one (monitor guard !stopped), every skipped slot is an error result (this clause found defect D3, now fixed); pooled task: reads the stop flag under the mutex before executing, sets it under the mutex after a failure in stop mode, marks itself with an error when stopped; the flag starts lowered and only an item that ran and failed raises it; a slot holds exactly the outcome exec returned (an error Result stays an error).",
         "Pooled 'only already picked-up items still run' needs T1 ordering + L3 (argued).", "6/C09, 7/D3"),
 "C10": ("Flow as a node: Flow.Prep returns the very store and invokes nothing; Flow.Exec runs every child with that store and returns the last child's action boxed; Flow.Post unboxes it; errors pass unchanged; NewFlow/Connect store exactly the nodes given (no unwrapping), every flow has its own BaseNode, and a flow whose path has run to its end returns an error only for a failed child.",
         "Equivalence with the flattened state machine is the corollary of these clauses plus Run's contract; it is stated, not separately machine-checked.", "6/C10"),
 "C11": ("Batch cancellation: no runExecWithRetries call while cancelled (sequential monitor guard, pooled task checks ctx first), no Exec attempt while cancelled, cancelled wait returns Is(err, ctx.Err()), every unexecuted slot carries an error (found D3), post called exactly once unless prep/post fails. Retry and index loops have decreases clauses.",
         "Termination of pool.Wait() needs T2 and that every task terminates (callbacks terminate): argued. A3.", "6/C11"),
 "C12": ("Worker pool facts proved per function: Submit does exactly one wg.Add(1) before exactly one blocking send of a wrapper bound to (pool, task); the wrapper calls the task exactly once and wg.Done exactly once, deferred; worker calls each received task exactly once before the next receive and returns only on closed queue or done; Wait calls wg.Wait once; Close closes both channels once.",
         "Exactly-once, barrier and visibility for every schedule follow by lemma L2 (SMT-checked counter steps, L2barrier) from these facts and T2-T5 (correspondence argued). 'All goroutines terminate after Wait+Close' is liveness under fairness: not decided.", "6/C12, 8"),
 "C13": ("Lock discipline proved for every store method: each read of the data field and of the map happens with the RWMutex held (R or W), each map write / field write with the exclusive lock, the lock is released at every return, exactly one critical section per operation (Merge/Clear/GetAll/Keys do their whole work in it); the functional whole-view clauses of every operation (C14) are checked under this property too, since the reference is an ordinary map.",
         "Linearizability and race freedom follow from this discipline by the standard two-phase-locking argument (lemma L1) and T1: that step is an assumption, not machine-checked. Typed getters reach the store only through one Get.", "6/C13, 4/L1"),
 "C14": ("Store = map: whole-view postconditions for Get/Set/Has/Delete/Len/Clear/Merge/GetAll/Keys over the abstract (dom, val) view of the map object, with frames; GetAll returns a fresh map equal to the view; Keys returns a fresh backing array that is a bijection onto the key set (length == card, all elements keys, pairwise distinct). Range loops use T6 with a ghost visited set.",
         "T6 (range over map) with its side condition checked; sequences of operations by induction over the per-operation refinement (L5, prose).", "6/C14"),
 "C15": ("Typed accessors: one spec function per family written from the documented source types; plain/Or/Must variants of Result and the store getters are each proved equal to it, hence to each other; numeric conversions use the same conversion symbol in spec and code; ToSlice proved for nil, []any, the four fast paths and the reflection path; slice accessors succeed exactly for kind==Slice (found D1, now fixed); panic freedom of every non-Must accessor for every dynamic type.",
         "T10 for reflect; floats uninterpreted; generic As[T]/MustAs[T] have no instantiation in the package and are not covered.", "6/C15, 7/D1"),
 "C16": ("Bind proved against bindSpec: error (no panic) for nil value / nil or non-pointer destination / missing key; identical types => *dest == value; otherwise result and *dest are exactly Unmarshal(Marshal(value), dest) including both error cases; frame: only *dest changes. Store and Result Bind satisfy the same spec function.",
         "T10: json.Marshal/Unmarshal and reflect are modelled by their documented contracts; what they compute is the property's own oracle and is not verified.", "6/C16"),
 "C17": ("Function-style nodes: CustomNode.Prep/Exec/Post call the user function exactly once and thread values unchanged (wrapAny: a Result passes through, anything else is wrapped once - found D4, now fixed); Any-style adapters (option and builder forms) have identical contracts; setters install exactly the given function or the adapter closure bound to it.",
         "A4 (Any-style payloads are not themselves flyt.Result values).", "6/C17, 7/D4"),
 "C18": ("Successful run => non-empty action: postconditions on Run and on all three successful returns of runBatch including the empty batch (found D2, now fixed); Flow.Post/BatchNode.Post/BaseNode.Post may return anything, normalisation is proved in Run/runBatch.",
         "-", "6/C18, 7/D2"),
 "C19": ("Configuration: every setting in option form (composed contract: constructor then application) and in builder form has the same postcondition field == value with a whole-struct frame, hence last-wins and form-independence; defaults proved for NewBaseNode/NewNode/NewBatchNode/NewWorkerPool; NewBaseNode/NewNode/NewBatchNode apply the collected options in index order, each exactly once, base options before custom ones.",
         "Unknown options may set any field of the node they receive (A1 for options); option application inside NewNode/NewBatchNode: the collected lists are proved to be the order-preserving sub-sequences of the argument list.", "6/C19"),
 "C20": ("Retry wait with a ghost clock: at every Exec site after the first, now >= end of previous attempt + wait (T7); the blocking select happens only when 0 < attempts made < budget (no wait before the first attempt or after the last, in Run and in the batch item loop); the blocking receive on the timer always sits in a select with ctx.Done() whose branch returns Is(err, ctx.Err()) without further blocking operation or callback (an error built from context.Cause does not qualify). time.NewTimer/Reset are modelled like time.After.",
         "T7 stands for real elapsed time (not measured); T5, T8.", "6/C20"),
}
checks = []
for pid, (text, note, ref) in props.items():
    checks.append({
        "property_id": pid,
        "quick_cmd": f"./check.sh {pid} quick",
        "thorough_cmd": f"./check.sh {pid} thorough",
        "evidence_file": f"/verif/evidence/{pid}.json",
        "replay_cmd_template": "./replay.sh {path}",
        "engine": "flytvc",
        "level_claimed": {"category": "proof", "text": text, "design_ref": ref},
        "level_note": note,
        "technique": "contract-based deductive verification: weakest-precondition style VCs generated from go/ssa of /repo against //@ contracts, discharged by z3 4.8.12 / z3 5.1.0 / cvc5 1.0.3",
    })
hooks_commits = subprocess.run("git -C /repo log --format=%h --grep='^verif:'", shell=True, capture_output=True, text=True).stdout.split()
m = {
 "version": 1,
 "setup_cmd": "./setup.sh",
 "hooks": {"guard": "verif", "enable": "contracts live in /repo/contracts_verif.go (//go:build verif, comment-only); the verifier loads /repo with -tags verif",
           "baseline_off_cmd": "cd /repo && go test -vet=off -count=1 ./...", "source_commits": hooks_commits, "add_only": True},
 "engines": [{"name": "flytvc", "path": "/verif/engine", "serves_properties": sorted(props),
              "kind_free_text": "deductive verifier for Go written for this task: contracts (requires/ensures/loop invariants/decreases/assigns/ghost monitors) in /repo/contracts_verif.go, forward symbolic execution of go/ssa per function (callers see only callee contracts), obligations discharged by racing z3/z3-new/cvc5"}],
 "checks": checks,
 "notes": "See DESIGN.md. known_findings.txt lists four genuine defects found by these checks, all repaired by fix: commits in /repo.",
 "not_applicable": [],
}
json.dump(m, open("/verif/MANIFEST.json", "w"), indent=1)
print("wrote MANIFEST.json with", len(checks), "checks")
