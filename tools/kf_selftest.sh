#!/bin/bash
# known-finding mechanism: a listed finding is printed as KNOWN-FINDING and does not fail the check; another violation still does
D=$(mktemp -d /tmp/kfrepo.XXXX); O=$(mktemp -d /tmp/kfout.XXXX)
cp /repo/*.go /repo/go.mod $D/
python3 - $D <<'PY'
import sys
d=sys.argv[1]
p=d+'/batch.go'; s=open(p).read()
old='\t\tif action == "" {\n\t\t\taction = DefaultAction\n\t\t}\n\t\treturn action, nil\n\t}\n'
assert old in s
open(p,'w').write(s.replace(old,'\t\treturn action, nil\n\t}\n'))
PY
printf 'finding: property=C18 obligation=runBatch/ensures#5[C10,C18] empty batch whose post returns "" yields ("", nil)\nfinding: property=C18 obligation=runBatch/ensures#6[C18] same input\n' > $O/known_findings.txt
/verif/bin/flytvc check -property C18 -repo $D -out $O -no-replay | grep -v "^flytvc"; echo "exit=$?"
echo "--- now also break Run's normalisation: must still be reported"
python3 - $D <<'PY'
import sys
d=sys.argv[1]
p=d+'/flyt.go'; s=open(p).read()
old='\tif action == "" {\n\t\taction = DefaultAction\n\t}\n\n\treturn action, nil\n}\n\n// Flow represents'
assert old in s
open(p,'w').write(s.replace(old,'\treturn action, nil\n}\n\n// Flow represents'))
PY
/verif/bin/flytvc check -property C18 -repo $D -out $O -no-replay | grep -v "^flytvc"; echo "exit=${PIPESTATUS[0]}"
rm -rf $D $O
