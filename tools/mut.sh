#!/bin/bash
# usage: mut.sh <file> <sed-expr> <flytvc args...>   — apply a one-line mutation to a scratch copy and run the verifier on it
set -e
D=$(mktemp -d /tmp/mrepo.XXXXXX)
trap 'rm -rf "$D"' EXIT
cp /repo/*.go /repo/go.mod "$D"/
[ -f /repo/go.sum ] && cp /repo/go.sum "$D"/
f=$1; expr=$2; shift 2
before=$(md5sum "$D/$f")
sed -i "$expr" "$D/$f"
after=$(md5sum "$D/$f")
if [ "$before" == "$after" ]; then echo "MUTATION DID NOT APPLY"; exit 3; fi
(cd "$D" && GOFLAGS=-mod=mod GOPROXY=off go build ./... ) || { echo "MUTANT DOES NOT COMPILE"; exit 4; }
/verif/bin/flytvc "$@" -repo "$D" || true
