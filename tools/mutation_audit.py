#!/usr/bin/env python3
"""mutation_audit.py [--all] [--out FILE]: systematic first-order mutation audit of the checks.
 1. bin/mutgen generates AST-level mutants of flyt.go, batch.go, builder.go, result.go (operators: relational /
    boolean / arithmetic operator swap, negated if-condition, removed '!', deleted statement, constant change,
    returned error replaced by nil) into a scratch directory outside /repo and /verif.
 2. every mutant is compiled and run against the existing test suite; by default only the survivors of the suite
    (the changes "that compile and pass the existing tests") go on, with --all every compiling mutant does.
 3. for each of those, the quick checks of the properties whose function sets contain the mutated function are run
    (all 20 when no contract names it); a mutant no check reports is listed for triage (equivalent mutant, or a hole).
Writes /verif/selftest/mutation_audit.json."""
import sys, os, json, shutil, subprocess, tempfile, re, concurrent.futures, time
ENV = dict(os.environ, GOFLAGS='-mod=mod', GOPROXY='off', GOSUMDB='off', GOTOOLCHAIN='local')
ALL = '--all' in sys.argv
OUT = '/verif/selftest/mutation_audit.json'
if '--out' in sys.argv: OUT = sys.argv[sys.argv.index('--out') + 1]
only = [a for a in sys.argv[1:] if a.startswith('m') and a[1:].isdigit()]
skip = set()
if '--skip-done' in sys.argv:
    # resume: mutants already judged in an earlier (interrupted) run, read from its log
    for l in open(sys.argv[sys.argv.index('--skip-done') + 1]):
        m = re.match(r'\[\d+/\d+\] (m\d+) ', l)
        if m: skip.add(m.group(1))
props = [f'C{i:02d}' for i in range(1, 21)]
def run(cmd, cwd, timeout=None):
    try:
        r = subprocess.run(cmd, cwd=cwd, capture_output=True, text=True, env=ENV, shell=isinstance(cmd, str), timeout=timeout)
        return r.returncode, r.stdout + r.stderr
    except subprocess.TimeoutExpired:
        return 124, 'timeout'
work = tempfile.mkdtemp(prefix='flytmut.')
muts_dir = os.path.join(work, 'muts')
c, o = run(['/verif/bin/mutgen', '/repo', muts_dir], '/verif')
assert c == 0, o
index = [json.loads(l) for l in open(os.path.join(muts_dir, 'index.jsonl'))]
if only: index = [m for m in index if m['id'] in only]
funcs_of = {}
for p in props:
    c, o = run(['/verif/bin/flytvc', 'list', '-property', p], '/verif')
    funcs_of[p] = set(l.strip().split('$')[0].split('+')[0] for l in o.splitlines() if l.strip() and not l.startswith('WARNING'))
def norm_func(f):
    # mutgen prints "(*SharedStore).Get" / "(Result).AsInt" / "Run"
    m = re.match(r'\((\*?)(\w+)\)\.(\w+)', f)
    if m:
        return ('(*%s).%s' % (m.group(2), m.group(3))) if m.group(1) else ('%s.%s' % (m.group(2), m.group(3)))
    return f
def scratch(m):
    d = tempfile.mkdtemp(prefix='flytm.', dir=work)
    for f in os.listdir('/repo'):
        if f.endswith('.go') or f in ('go.mod', 'go.sum'):
            shutil.copy('/repo/' + f, d)
    shutil.copy(os.path.join(muts_dir, m['id'], m['file']), os.path.join(d, m['file']))
    return d
def phase1(m):
    d = scratch(m)
    try:
        c, o = run('go build ./...', d, 120)
        if c != 0: return m['id'], 'does-not-compile'
        c, o = run('go test -vet=off -count=1 -timeout 60s .', d, 120)
        return m['id'], ('survives-tests' if c == 0 else 'killed-by-tests')
    finally:
        shutil.rmtree(d, ignore_errors=True)
t0 = time.time()
status = {}
with concurrent.futures.ThreadPoolExecutor(max_workers=8) as ex:
    for mid, st in ex.map(phase1, index):
        status[mid] = st
print('phase 1:', {s: list(status.values()).count(s) for s in set(status.values())}, f'{time.time()-t0:.0f}s', flush=True)
def check(d, p):
    out = tempfile.mkdtemp(prefix='flytout.', dir=work)
    shutil.copy('/verif/known_findings.txt', out)
    c, o = run(['/verif/bin/flytvc', 'check', '-property', p, '-repo', d, '-out', out, '-no-replay', '-v'], '/verif', 900)
    shutil.rmtree(out, ignore_errors=True)
    return p, c, re.findall(r'^FAILED (\S.*?) \[', o, re.M)
results = []
todo = [m for m in index if (status[m['id']] == 'survives-tests' or (ALL and status[m['id']] == 'killed-by-tests')) and m['id'] not in skip]
for k, m in enumerate(todo):
    f = norm_func(m['func'])
    sel = [p for p in props if f in funcs_of[p]] or props
    d = scratch(m)
    try:
        alarms = {}
        # five properties at a time; once a chunk has raised an alarm the mutant counts as caught and the rest is skipped
        for k0 in range(0, len(sel), 5):
            with concurrent.futures.ThreadPoolExecutor(max_workers=5) as ex:
                for p, c, failed in ex.map(lambda p: check(d, p), sel[k0:k0+5]):
                    if c != 0: alarms[p] = failed[:4]
            if alarms and not ALL: break
        r = dict(m, tests=status[m['id']], properties_checked=sel, alarms=alarms, caught=bool(alarms))
        results.append(r)
        print(f"[{k+1}/{len(todo)}] {m['id']} {m['file']}:{m['line']} {f} {m['op']} ({m['desc']}) tests={status[m['id']]} -> {'caught by ' + ','.join(sorted(alarms)) if alarms else 'NOT CAUGHT'}", flush=True)
    finally:
        shutil.rmtree(d, ignore_errors=True)
summary = {'generated': len(index), 'status': {s: list(status.values()).count(s) for s in set(status.values())},
           'checked': len(results), 'caught': sum(r['caught'] for r in results), 'not_caught': [r for r in results if not r['caught']]}
json.dump({'summary': summary, 'results': results}, open(OUT, 'w'), indent=1)
print(json.dumps({k: v for k, v in summary.items() if k != 'not_caught'}))
shutil.rmtree(work, ignore_errors=True)
