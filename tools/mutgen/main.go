// mutgen: first-order mutants of the package's non-test Go files (AST level), one file per mutant.
// usage: mutgen <repo dir> <out dir>   → out/<id>/<file>.go (only the mutated file), out/index.jsonl
package main

import (
	"bytes"
	"encoding/json"
	"fmt"
	"go/ast"
	"go/parser"
	"go/printer"
	"go/token"
	"os"
	"path/filepath"
	"strings"
)

type mutant struct {
	ID   string `json:"id"`
	File string `json:"file"`
	Func string `json:"func"`
	Line int    `json:"line"`
	Op   string `json:"op"`
	Desc string `json:"desc"`
}

func main() {
	repo, out := os.Args[1], os.Args[2]
	files := []string{"flyt.go", "batch.go", "builder.go", "result.go"}
	os.MkdirAll(out, 0o755)
	idx, _ := os.Create(filepath.Join(out, "index.jsonl"))
	defer idx.Close()
	n := 0
	for _, f := range files {
		src, err := os.ReadFile(filepath.Join(repo, f))
		if err != nil {
			panic(err)
		}
		// count mutation points by a dry run, then regenerate the AST for each point
		points := enumerate(src, f, -1, nil)
		for k := 0; k < points; k++ {
			var m mutant
			res := new(bytes.Buffer)
			enumerate(src, f, k, func(fset *token.FileSet, file *ast.File, mm mutant) {
				m = mm
				printer.Fprint(res, fset, file)
			})
			if res.Len() == 0 {
				continue
			}
			n++
			m.ID = fmt.Sprintf("m%04d", n)
			m.File = f
			d := filepath.Join(out, m.ID)
			os.MkdirAll(d, 0o755)
			os.WriteFile(filepath.Join(d, f), res.Bytes(), 0o644)
			b, _ := json.Marshal(m)
			idx.Write(append(b, '\n'))
		}
	}
	fmt.Println(n, "mutants")
}

var relSwap = map[token.Token][]token.Token{
	token.LSS: {token.LEQ}, token.LEQ: {token.LSS}, token.GTR: {token.GEQ}, token.GEQ: {token.GTR},
	token.EQL: {token.NEQ}, token.NEQ: {token.EQL}, token.LAND: {token.LOR}, token.LOR: {token.LAND},
	token.ADD: {token.SUB}, token.SUB: {token.ADD}, token.MUL: {token.ADD},
}

// enumerate walks the file; when target < 0 it only counts mutation points; otherwise it applies the
// target-th mutation and calls emit.
func enumerate(src []byte, name string, target int, emit func(*token.FileSet, *ast.File, mutant)) int {
	fset := token.NewFileSet()
	file, err := parser.ParseFile(fset, name, src, parser.ParseComments)
	if err != nil {
		panic(err)
	}
	count := 0
	curFunc := ""
	hit := func(pos token.Pos, op, desc string, apply func()) {
		if count == target {
			apply()
			emit(fset, file, mutant{Func: curFunc, Line: fset.Position(pos).Line, Op: op, Desc: desc})
		}
		count++
	}
	var walkStmts func(list *[]ast.Stmt)
	var walkNode func(n ast.Node)
	walkStmts = func(list *[]ast.Stmt) {
		for i := range *list {
			i := i
			st := (*list)[i]
			switch s := st.(type) {
			case *ast.ExprStmt, *ast.IncDecStmt, *ast.DeferStmt, *ast.GoStmt, *ast.SendStmt:
				hit(st.Pos(), "delete-stmt", "statement deleted", func() { (*list)[i] = &ast.EmptyStmt{Semicolon: st.Pos()} })
			case *ast.AssignStmt:
				if s.Tok != token.DEFINE {
					hit(st.Pos(), "delete-stmt", "assignment deleted", func() { (*list)[i] = &ast.EmptyStmt{Semicolon: st.Pos()} })
				}
			case *ast.BranchStmt:
				if s.Tok == token.BREAK || s.Tok == token.CONTINUE {
					hit(st.Pos(), "delete-stmt", s.Tok.String()+" deleted", func() { (*list)[i] = &ast.EmptyStmt{Semicolon: st.Pos()} })
				}
			}
			walkNode(st)
		}
	}
	walkNode = func(n ast.Node) {
		ast.Inspect(n, func(x ast.Node) bool {
			switch e := x.(type) {
			case *ast.BlockStmt:
				if e != n {
					walkStmts(&e.List)
					return false
				}
			case *ast.CaseClause:
				walkStmts(&e.Body)
				for _, c := range e.List {
					walkNode(c)
				}
				return false
			case *ast.CommClause:
				walkStmts(&e.Body)
				if e.Comm != nil {
					walkNode(e.Comm)
				}
				return false
			case *ast.BinaryExpr:
				for _, alt := range relSwap[e.Op] {
					old := e.Op
					alt := alt
					hit(e.OpPos, "binop", fmt.Sprintf("%s -> %s", old, alt), func() { e.Op = alt })
				}
			case *ast.UnaryExpr:
				if e.Op == token.NOT {
					// cannot remove the node in place; turn !x into !!x
					hit(e.OpPos, "negation", "! removed", func() { e.X = &ast.UnaryExpr{Op: token.NOT, X: e.X} })
				}
			case *ast.IfStmt:
				hit(e.Cond.Pos(), "if-negate", "condition negated", func() { e.Cond = &ast.UnaryExpr{Op: token.NOT, X: &ast.ParenExpr{X: e.Cond}} })
			case *ast.BasicLit:
				switch e.Kind {
				case token.INT:
					old := e.Value
					nv := "0"
					if old == "0" {
						nv = "1"
					} else if old == "1" {
						nv = "2"
					}
					hit(e.Pos(), "const", old+" -> "+nv, func() { e.Value = nv })
				case token.STRING:
					if e.Value == `""` {
						hit(e.Pos(), "const", `"" -> "x"`, func() { e.Value = `"x"` })
					} else if !strings.Contains(e.Value, "%") && len(e.Value) < 20 && !strings.HasPrefix(e.Value, "`") {
						old := e.Value
						hit(e.Pos(), "const", old+` -> ""`, func() { e.Value = `""` })
					}
				}
			case *ast.Ident:
				if e.Name == "true" || e.Name == "false" {
					old := e.Name
					nv := map[string]string{"true": "false", "false": "true"}[old]
					hit(e.Pos(), "const", old+" -> "+nv, func() { e.Name = nv })
				}
			case *ast.ReturnStmt:
				// return ..., err  ->  return ..., nil   (swallow the error)
				if len(e.Results) >= 1 {
					last := e.Results[len(e.Results)-1]
					if id, ok := last.(*ast.Ident); ok && (id.Name == "err" || strings.HasSuffix(id.Name, "Err")) {
						hit(e.Pos(), "return-nil-error", "returned error replaced by nil", func() { e.Results[len(e.Results)-1] = ast.NewIdent("nil") })
					}
				}
			}
			return true
		})
	}
	for _, d := range file.Decls {
		fd, ok := d.(*ast.FuncDecl)
		if !ok || fd.Body == nil {
			continue
		}
		curFunc = fd.Name.Name
		if fd.Recv != nil && len(fd.Recv.List) == 1 {
			var b bytes.Buffer
			printer.Fprint(&b, token.NewFileSet(), fd.Recv.List[0].Type)
			curFunc = "(" + b.String() + ")." + fd.Name.Name
		}
		walkStmts(&fd.Body.List)
	}
	return count
}
