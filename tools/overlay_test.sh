#!/bin/bash
# usage: overlay_test.sh <test-file.go> <run-regex> [repo-dir]
# Runs an in-package test against the repository without writing to it (go test -overlay).
set -e
f=$(realpath "$1"); re=$2; repo=${3:-/repo}
ov=$(mktemp /tmp/ov.XXXXXX.json)
trap 'rm -f "$ov"' EXIT
printf '{"Replace":{"%s/zz_verif_overlay_test.go":"%s"}}' "$repo" "$f" > "$ov"
cd "$repo"
GOFLAGS=-mod=mod GOPROXY=off GOSUMDB=off GOTOOLCHAIN=local go test -overlay "$ov" -vet=off -count=1 -timeout 60s -run "$re" . 
