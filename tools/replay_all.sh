#!/bin/bash
# Runs every (property, replay family) pair against a repository (default /repo) and prints the pairs that report a violation.
repo=${1:-/repo}
bad=0
while read -r prop fams; do
  for f in $fams; do
    out=$(/verif/tools/replay_family.sh "$f" "$prop" "$repo" | tr -d '\n')
    if echo "$out" | grep -q '"violation"'; then echo "FAIL $prop $f: $(echo "$out" | sed 's/.*"violation": //' | cut -c1-300)"; bad=1; else echo "ok   $prop $f $(echo "$out" | grep -o '"scenarios_tried": [0-9]*')"; fi
  done
done <<'L'
C01 lifecycle
C02 lifecycle batch config flow
C03 flow
C04 lifecycle flow batch
C05 lifecycle flow
C06 batch
C07 batch
C08 pool batch config
C09 batch config
C10 flow
C11 batch
C12 pool
C13 storeconc
C14 store
C15 value
C16 bind
C17 lifecycle batch
C18 lifecycle batch flow
C19 config
C20 lifecycle batch config
L
exit $bad
