#!/bin/bash
# usage: replay_family.sh <family> <property|""> [repo-dir] [scenario-json]
# Runs the replay harness for one scenario family against the repository (go test -overlay; nothing is written to it).
fam=$1; prop=$2; repo=${3:-/repo}; one=$4
ov=$(mktemp /tmp/ov.XXXXXX.json); out=$(mktemp /tmp/rp.XXXXXX.json)
trap 'rm -f "$ov" "$out"' EXIT
printf '{"Replace":{"%s/zz_verif_replay_test.go":"/verif/replay/harness_test.go"}}' "$repo" > "$ov"
cd "$repo" && VERIF_REPLAY_FAMILY=$fam VERIF_REPLAY_PROPERTY=$prop VERIF_REPLAY_ONE="$one" VERIF_REPLAY_OUT=$out GOFLAGS=-mod=mod GOPROXY=off GOSUMDB=off GOTOOLCHAIN=local \
  go test -overlay "$ov" -vet=off -count=1 -timeout 120s -run '^TestVerifReplay$' . > /tmp/replay_gotest.log 2>&1 || { tail -20 /tmp/replay_gotest.log; }
cat "$out"
