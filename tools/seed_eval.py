#!/usr/bin/env python3
"""seed_eval.py <Cxx> [--all-props]: validate a sub-agent's seeded change and run the checks against it.
 1. copies /tmp/wt/<Cxx>/_seed to /verif/seeded/<name>/
 2. confirms on a scratch copy: suite passes with the change, demo fails with it, demo passes without it
 3. runs flytvc for the property (and optionally every property) against the scratch copy with the change"""
import sys, os, shutil, subprocess, tempfile, json, re, glob
ENV = dict(os.environ, GOFLAGS='-mod=mod', GOPROXY='off', GOSUMDB='off', GOTOOLCHAIN='local')
arg = sys.argv[1]; pid = arg[:3]; allp = '--all-props' in sys.argv; norep = '--no-replay' in sys.argv
src = f'/tmp/wt/{arg}/_seed' if os.path.isdir(f'/tmp/wt/{arg}/_seed') else f'/verif/seeded/{arg.lower()}-agent'
if os.path.isdir(f'/tmp/wt/{arg[:-1]}/_seed_{arg[-1]}'):
    src = f'/tmp/wt/{arg[:-1]}/_seed_{arg[-1]}'  # two seeds per worktree: <Cxx>f + a|b
name = f'{arg.lower()}-agent'
dst = f'/verif/seeded/{name}'
if src != dst:
    os.makedirs(dst, exist_ok=True)
    for f in os.listdir(src):
        shutil.copy(os.path.join(src, f), dst)
patch = os.path.join(dst, 'patch.diff')
demos = [f for f in os.listdir(dst) if f.endswith('_test.go')]
def scratch():
    d = tempfile.mkdtemp(prefix='flytseed.')
    for f in os.listdir('/repo'):
        if f.endswith('.go') or f in ('go.mod', 'go.sum'):
            shutil.copy('/repo/' + f, d)
    return d
def run(cmd, cwd):
    r = subprocess.run(cmd, cwd=cwd, capture_output=True, text=True, env=ENV, shell=isinstance(cmd, str))
    return r.returncode, (r.stdout + r.stderr)
d = scratch()
report = {}
try:
    for t in demos: shutil.copy(os.path.join(dst, t), d)
    c, o = run('go test -vet=off -count=1 .', d); report['demo_passes_without_change'] = (c == 0)
    c, o = run(['git', 'apply', '--unsafe-paths', '--directory', d, patch], '/'); 
    if c != 0:
        c, o = run(f'patch -p1 < {patch}', d)
    report['patch_applies'] = (c == 0); 
    if c != 0: print(o)
    c, o = run('go test -vet=off -count=1 .', d); report['demo_fails_with_change'] = (c != 0)
    for t in demos: os.remove(os.path.join(d, t))
    c, o = run('go build ./... && go test -vet=off -count=1 .', d); report['suite_passes_with_change'] = (c == 0)
    props = [pid] if not allp else [f'C{i:02d}' for i in range(1, 21)]
    report['checks'] = {}
    for p in props:
        out = tempfile.mkdtemp(prefix='flytout.')
        shutil.copy('/verif/known_findings.txt', out)
        c, o = run(['/verif/bin/flytvc', 'check', '-property', p, '-repo', d, '-out', out, '-v'] + (['-no-replay'] if norep else []), '/verif')
        viol = re.findall(r'^VIOLATION .*', o, re.M)
        failed = re.findall(r'^FAILED (\S.*?) \[', o, re.M)
        conf = [v for v in viol if 'no-failing-input-found' not in v]
        rep = None
        for f in glob.glob(out + '/replays/*.json'):
            j = json.load(open(f))
            if j.get('failing_input'):
                rep = j['failing_input'].get('observed_on_real_code'); break
        report['checks'][p] = {'exit': c, 'violations': len(viol), 'confirmed_failing_input': len(conf), 'failed_obligations': failed[:6], 'replay_observation': rep}
        shutil.rmtree(out, ignore_errors=True)
finally:
    shutil.rmtree(d, ignore_errors=True)
meta_p = os.path.join(dst, 'meta.json')
try: meta = json.load(open(meta_p))
except Exception: meta = {'property': pid}
meta['validated_by_verif'] = {k: v for k, v in report.items() if k != 'checks'}
meta['flytvc'] = report.get('checks')
if not norep:
    json.dump(meta, open(meta_p, 'w'), indent=1)
print(json.dumps(report, indent=1))
