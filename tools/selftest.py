#!/usr/bin/env python3
"""Runs the must-fail corpus and the benign refactors against the verifier (scratch copies outside /repo and /verif)."""
import sys, os, re, shutil, subprocess, tempfile, json, time, glob, concurrent.futures
sys.path.insert(0, '/verif/selftest')
from cases import MUTANTS, BENIGN
ENV = dict(os.environ, GOFLAGS='-mod=mod', GOPROXY='off', GOSUMDB='off', GOTOOLCHAIN='local')
args = sys.argv[1:]
prop_filter = None
REPO = '/repo'
if '--property' in args:
    i = args.index('--property'); prop_filter = args[i+1]; del args[i:i+2]
if '--repo' in args:
    i = args.index('--repo'); REPO = args[i+1]; del args[i:i+2]
only = args
def scratch():
    d = tempfile.mkdtemp(prefix='flytself.')
    for f in os.listdir(REPO):
        if f.endswith('.go') or f in ('go.mod', 'go.sum'):
            shutil.copy(os.path.join(REPO, f), d)
    return d
def apply(d, edits):
    for (f, old, new) in edits:
        p = os.path.join(d, f)
        s = open(p).read()
        if old not in s:
            return f'edit does not apply in {f}: {old[:50]!r}'
        s = s.replace(old, new) if len(old) < 30 and old.isidentifier() else s.replace(old, new, 1)
        open(p, 'w').write(s)
    return None
def check(d, prop):
    out = tempfile.mkdtemp(prefix='flytout.')
    shutil.copy('/verif/known_findings.txt', out)
    r = subprocess.run(['/verif/bin/flytvc', 'check', '-property', prop, '-repo', d, '-out', out, '-no-replay', '-v'], capture_output=True, text=True, env=ENV)
    shutil.rmtree(out, ignore_errors=True)
    return r.returncode, r.stdout + r.stderr
def run_case(case, benign=False):
    if benign:
        cid, props, f, old, new = case[:5]; extra = case[5] if len(case) > 5 else []
    else:
        cid, prop, f, old, new, rx = case[:6]; extra = case[6] if len(case) > 6 else []; props = [prop]
    d = scratch()
    try:
        edits = ([(f, old, new)] if old is not None else []) + list(extra)
        err = apply(d, edits)
        if err: return cid, 'BROKEN-CASE', err
        b = subprocess.run(['go', 'build', './...'], cwd=d, capture_output=True, text=True, env=ENV)
        if b.returncode != 0: return cid, 'BROKEN-CASE', 'does not compile: ' + b.stderr[:300]
        t = subprocess.run(['go', 'test', '-vet=off', '-count=1', '-timeout', '90s', '.'], cwd=d, capture_output=True, text=True, env=ENV)
        tests = 'tests-pass' if t.returncode == 0 else 'tests-FAIL'
        res = []
        for p in props:
            code, out = check(d, p)
            failed = re.findall(r'^FAILED (\S.*?) \[', out, re.M)
            if benign:
                res.append((p, code == 0, failed[:3]))
            else:
                hit = [x for x in failed if re.search(rx, x)]
                res.append((p, code == 1 and bool(hit), (hit or failed)[:3]))
        ok = all(r[1] for r in res)
        return cid, ('ok' if ok else 'MISSED' if not benign else 'FALSE-ALARM'), f'{tests} ' + '; '.join(f'{p}:{"+" if o else "-"} {x}' for p, o, x in res)
    finally:
        shutil.rmtree(d, ignore_errors=True)
# seeded changes from sub-agents: /verif/seeded/<id>/patch.diff must fail the check of its property
def run_seed(sdir):
    meta = json.load(open(os.path.join(sdir, 'meta.json')))
    prop = meta['property']; cid = 'seed-' + os.path.basename(sdir)
    d = scratch()
    try:
        r = subprocess.run(['git', 'apply', '--unsafe-paths', '--directory', d, os.path.join(sdir, 'patch.diff')], cwd='/', capture_output=True, text=True)
        if r.returncode != 0: return cid, 'BROKEN-CASE', 'patch does not apply: ' + r.stderr[:200]
        b = subprocess.run(['go', 'build', './...'], cwd=d, capture_output=True, text=True, env=ENV)
        if b.returncode != 0: return cid, 'BROKEN-CASE', 'does not compile'
        code, out = check(d, prop)
        failed = re.findall(r'^FAILED (\S.*?) \[', out, re.M)
        return cid, ('ok' if code == 1 else 'MISSED'), f'{prop}: {failed[:3]}'
    finally:
        shutil.rmtree(d, ignore_errors=True)
jobs = [(c, False) for c in MUTANTS if not only or any(o in c[0] for o in only)] + [(c, True) for c in BENIGN if not only or any(o in c[0] for o in only)]
if prop_filter:
    jobs = [(c, b) for (c, b) in jobs if (not b and c[1] == prop_filter)]
seeds = sorted(glob.glob('/verif/seeded/*/')) if (not only or 'seeds' in only) else []
if prop_filter:
    seeds = [x for x in seeds if json.load(open(os.path.join(x, 'meta.json'))).get('property') == prop_filter]
if only == ['seeds']:
    jobs = []
t0 = time.time()
bad = 0
with concurrent.futures.ThreadPoolExecutor(max_workers=4) as ex:
    for cid, status, detail in ex.map(lambda j: run_case(*j), jobs):
        print(f'{status:12} {cid:38} {detail[:260]}')
        if status != 'ok': bad += 1
    for cid, status, detail in ex.map(lambda x: run_seed(x.rstrip('/')), seeds):
        print(f'{status:12} {cid:38} {detail[:260]}')
        if status != 'ok': bad += 1
print(f'{len(jobs)+len(seeds)} cases, {bad} not ok, {time.time()-t0:.0f}s')
sys.exit(1 if bad else 0)
